#!/usr/bin/env python3
"""Mutation self-test for the hand-written modules (decoder, encoder, utils, message, ioclient).

usage: tools/src_mutate.py <n> <seed> [file ...]

Draws n random single-token mutations (comparison / boolean / arithmetic operator, small constant, mask,
True/False, statement removal, return value), keeps those that compile AND pass the repository's own tests
(a mutant the tests already kill is not interesting), and runs the property checks most relevant to the file
against each remaining mutant (then all the others). Survivors are printed with their diff: each is either an
equivalent mutant or a gap in the monitors.
"""
import os
import py_compile
import random
import re
import shutil
import subprocess
import sys
import tempfile

V = os.path.dirname(os.path.dirname(os.path.abspath(__file__)))
REPO = "/repo"
ALL = ["C%02d" % i for i in range(1, 21)]
ORDER = {
    "decoder.py": ["C04", "C10", "C11", "C16", "C07", "C03", "C05", "C06", "C15", "C17", "C01", "C08"],
    "encoder.py": ["C03", "C05", "C06", "C09", "C02", "C19", "C07"],
    "utils.py": ["C01", "C02", "C09", "C18", "C06", "C15", "C20", "C07"],
    "message.py": ["C15", "C17", "C18", "C11", "C09", "C02", "C16"],
    "ioclient.py": ["C12", "C13", "C14", "C19", "C20", "C06"],
}

OPS = [
    (r"(?<![<>=!])<=(?!=)", "<"), (r"(?<![<>=!])<(?![<=])", "<="), (r"(?<![<>=!-])>=(?!=)", ">"), (r"(?<![<>=!-])>(?![>=])", ">="),
    (r"==", "!="), (r"!=", "=="), (r"\band\b", "or"), (r"\bor\b", "and"), (r"\bnot ", ""), (r"\bTrue\b", "False"), (r"\bFalse\b", "True"),
    (r" is not None", " is None"), (r" is None", " is not None"), (r"<<", ">>"), (r">>", "<<"), (r"(?<=[\w\)\]]) \+ (?=[\w\(])", " - "),
    (r"(?<=[\w\)\]]) - (?=[\w\(])", " + "), (r"\b0x([0-9A-Fa-f]+)\b", "HEX"), (r"(?<![\w.])(\d+)(?![\w.])", "INT"), (r" in ", " not in "),
]


def mutate_line(line, rng):
    code = line.split("#")[0]
    if not code.strip() or code.strip().startswith(('"""', "'''", "logger.", "self.logger.", "import ", "from ", "def ", "class ", "@", '"', "'")):
        return None
    if "logger" in code or '"""' in code:
        return None
    choices = []
    for k, (pat, rep) in enumerate(OPS):
        for m in re.finditer(pat, code):
            # skip matches inside string literals (rough: odd number of quotes before the match)
            pre = code[:m.start()]
            if pre.count('"') % 2 or pre.count("'") % 2:
                continue
            choices.append((k, m))
    stmt_del = re.match(r"^(\s+)(self\.[\w.]+\s*=[^=].*|[\w.]+\(.*\)|[\w.\[\]]+\s*[+\-|]?=[^=].*)$", code.rstrip())
    if stmt_del and rng.random() < 0.25:
        return stmt_del.group(1) + "pass", "delete-statement"
    ret = re.match(r"^(\s+)return (?!None\b)(\S.*)$", code.rstrip())
    if ret and rng.random() < 0.2:
        return ret.group(1) + "return None", "return-none"
    if not choices:
        return None
    k, m = rng.choice(choices)
    pat, rep = OPS[k]
    if rep == "HEX":
        v = int(m.group(1), 16)
        nv = rng.choice([v >> 1, (v << 1) | 1, v ^ 1])
        new = "0x%X" % nv
    elif rep == "INT":
        v = int(m.group(1))
        nv = rng.choice([v + 1, max(0, v - 1)])
        if nv == v:
            nv = v + 1
        new = str(nv)
    else:
        new = rep
    out = code[:m.start()] + new + code[m.end():]
    if out == code:
        return None
    return out.rstrip("\n") + ("  #" + line.split("#", 1)[1].rstrip("\n") if "#" in line else ""), f"{m.group(0).strip()}->{new.strip() or '(removed)'}"


def main():
    n, seed = int(sys.argv[1]), int(sys.argv[2])
    files = sys.argv[3:] or list(ORDER)
    rng = random.Random(seed)
    os.makedirs(os.path.join(V, ".scratch", "mut"), exist_ok=True)
    stats = {"tried": 0, "not_compiling": 0, "killed_by_repo_tests": 0, "caught": 0, "survived": 0}
    survivors = []
    while stats["caught"] + stats["survived"] < n and stats["tried"] < n * 40:
        fn = rng.choice(files)
        src = open(os.path.join(REPO, "nmea2000", fn)).read().split("\n")
        i = rng.randrange(len(src))
        # not inside a docstring: count triple quotes above the line
        if sum(l.count('"""') for l in src[:i]) % 2 == 1 or '"""' in src[i]:
            continue
        r = mutate_line(src[i], rng)
        if not r:
            continue
        new_line, op = r
        stats["tried"] += 1
        d = tempfile.mkdtemp(prefix="sm-", dir="/tmp")
        try:
            shutil.copytree(os.path.join(REPO, "nmea2000"), os.path.join(d, "nmea2000"), ignore=shutil.ignore_patterns("__pycache__"))
            shutil.copy(os.path.join(REPO, "canboat.json"), d)
            shutil.copytree(os.path.join(REPO, "tests"), os.path.join(d, "tests"), ignore=shutil.ignore_patterns("__pycache__"))
            lines = list(src)
            lines[i] = new_line
            path = os.path.join(d, "nmea2000", fn)
            open(path, "w").write("\n".join(lines))
            try:
                py_compile.compile(path, doraise=True, cfile=os.path.join(d, "x.pyc"))
            except py_compile.PyCompileError:
                stats["not_compiling"] += 1
                continue
            t = subprocess.run(["/venv/bin/python", "-m", "pytest", "-q", "-p", "no:cacheprovider", "-x", "--timeout=60"], cwd=d, capture_output=True, text=True)
            if " passed" not in t.stdout or " failed" in t.stdout or " error" in t.stdout:
                # the client tests bind a fixed port: retry once without them before calling it killed
                t2 = subprocess.run(["/venv/bin/python", "-m", "pytest", "-q", "-p", "no:cacheprovider", "-x", "--timeout=60", "--deselect", "tests/test_tcp_client.py"],
                                    cwd=d, capture_output=True, text=True)
                if fn == "ioclient.py" or " passed" not in t2.stdout or " failed" in t2.stdout or " error" in t2.stdout:
                    stats["killed_by_repo_tests"] += 1
                    continue
            env = dict(os.environ, VERIF_REPO=d, VERIF_EVIDENCE_DIR=os.path.join(V, ".scratch", "mut"), VERIF_REPLAY_DIR=os.path.join(V, ".scratch", "mut"))
            caught_by = None
            for c in ORDER[fn] + [c for c in ALL if c not in ORDER[fn]]:
                p = subprocess.run([os.path.join(V, "check"), c, "--tier", "quick"], env=env, capture_output=True, text=True, cwd=V)
                if p.returncode == 1:
                    caught_by = c
                    break
                if p.returncode == 2:
                    caught_by = c + "(inconclusive)"
                    break
            tag = f"{fn}:{i + 1} [{op}]"
            if caught_by:
                stats["caught"] += 1
                print(f"caught({caught_by}) {tag}", flush=True)
            else:
                stats["survived"] += 1
                survivors.append(tag)
                print(f"SURVIVED {tag}\n    - {src[i].strip()[:180]}\n    + {new_line.strip()[:180]}", flush=True)
        finally:
            shutil.rmtree(d, ignore_errors=True)
    print("source mutation:", stats)
    for s_ in survivors:
        print("   survivor", s_)
    return 0


if __name__ == "__main__":
    sys.exit(main())
