#!/usr/bin/env python3
"""usage: tools/seed_meta.py <ID> '<needs>' '<caught_by>' '<ran>'  - writes seeded/<ID>/meta.json"""
import json, os, sys
cid, needs, caught, ran = sys.argv[1:5]
base = os.path.join(os.path.dirname(os.path.dirname(os.path.abspath(__file__))), "seeded", cid)
prop = cid.split("-")[0]
doc = {"property": prop, "seed_id": cid, "source": "independent sub-agent given only the property text and a scratch worktree",
       "needs_to_manifest": needs, "caught_by": caught, "what_was_run": ran,
       "confirmed": "patch applies to /repo HEAD, 71/71 repository tests pass with it, demo.py exits 0 on the clean tree and non-zero with the patch (tools/seed_verify.sh)"}
json.dump(doc, open(os.path.join(base, "meta.json"), "w"), indent=1)
print("wrote", base)
