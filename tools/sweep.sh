#!/bin/sh
# usage: tools/sweep.sh <tier> <seeds...>   - runs every check for each seed, evidence goes to .scratch/sweep (committed evidence untouched)
cd "$(dirname "$0")/.." || exit 2
TIER="$1"; shift
mkdir -p .scratch/sweep
bad=0
for seed in "$@"; do
  for c in C01 C02 C03 C04 C05 C06 C07 C08 C09 C10 C11 C12 C13 C14 C15 C16 C17 C18 C19 C20; do
    t0=$(date +%s)
    VERIF_SEED=$seed VERIF_EVIDENCE_DIR="$(pwd)/.scratch/sweep" VERIF_REPLAY_DIR="$(pwd)/.scratch/sweep" ./check $c --tier $TIER > .scratch/sweep/$c.$seed.$TIER.out 2>&1
    rc=$?
    t1=$(date +%s)
    echo "seed=$seed $c tier=$TIER rc=$rc $((t1-t0))s $(grep -cE '^(VIOLATION|INCONCLUSIVE)' .scratch/sweep/$c.$seed.$TIER.out) alarms"
    if [ $rc -ne 0 ]; then bad=1; grep -E '^(VIOLATION|INCONCLUSIVE|  key)' .scratch/sweep/$c.$seed.$TIER.out | head -5; fi
  done
done
exit $bad
