#!/bin/sh
# Runs every catalogued mutant (selftest/<ID>/*.patch) and every seeded breakage (seeded/<ID>*/patch.diff) against its check.
# A line "MISSED" means the check exited 0 on a tree where the property is broken.
cd "$(dirname "$0")/.." || exit 2
missed=0; total=0
for p in selftest/C*/*.patch seeded/C*/patch.diff; do
  id=$(echo "$p" | sed 's|.*/\(C[0-9][0-9]\)[^/]*/.*|\1|')
  if [ -f "$(dirname "$p")/out_of_fault_model.reason" ]; then echo "skipped $p  (out of the fault model: see $(dirname "$p")/out_of_fault_model.reason)"; continue; fi
  total=$((total+1))
  out=$(tools/mutant.sh "$p" "$id" 2>&1 | tail -1)
  case "$out" in
    *"exit 1"*) cnt=$(echo "$out" | grep -o 'count=[0-9]*' | head -1 | cut -d= -f2)
                nv=$(echo "$out" | grep -o '[0-9]* violation line' | cut -d' ' -f1)
                thin=""; [ -n "$cnt" ] && [ "$cnt" -lt 5 ] && [ "${nv:-0}" -lt 2 ] && thin="  THIN (one key, count $cnt: check other seeds)"
                echo "caught  $p  count=$cnt$thin";;
    *) echo "MISSED  $p :: $out"; missed=$((missed+1));;
  esac
done
echo "selftest: $total patches, $missed missed"
[ $missed -eq 0 ]
