#!/bin/sh
# usage: tools/seed_verify.sh <ID> <srcdir> [checks...]   (default check = <ID>)
# Confirms a sub-agent's seeded change in a scratch worktree (tests pass, demo passes clean / fails changed),
# runs the given checks against it, stores patch+demo+meta under seeded/<ID>/, removes the worktree.
set -u
ID="$1"; SRC="$2"; shift 2
CHECKS="${*:-$ID}"
V="$(cd "$(dirname "$0")/.." && pwd)"
W=$(mktemp -d /tmp/vt-$ID-XXXX); rmdir "$W"
git -C /repo worktree add --detach "$W" HEAD -q || exit 3
cd "$W"
PYTHONPATH="$W" /venv/bin/python "$SRC/demo.py" > /tmp/vt-demo-clean.$ID.out 2>&1; demo_clean=$?
git apply "$SRC/patch.diff" || { echo "APPLY FAILED"; git -C /repo worktree remove --force "$W"; exit 3; }
tests=""
for try in 1 2 3 4; do   # the client tests bind a fixed TCP port (8881): retry when another run holds it
  tests=$(/venv/bin/python -m pytest -q -p no:cacheprovider 2>&1 | tail -1)
  case "$tests" in *failed*|*error*) sleep 3;; *) break;; esac
done
PYTHONPATH="$W" /venv/bin/python "$SRC/demo.py" > /tmp/vt-demo-changed.$ID.out 2>&1; demo_changed=$?
mkdir -p "$V/.scratch/mut" "$V/seeded/$ID"
results=""
cd "$V"
for c in $CHECKS; do
  VERIF_REPO="$W" VERIF_EVIDENCE_DIR="$V/.scratch/mut" VERIF_REPLAY_DIR="$V/.scratch/mut" ./check "$c" --tier "${TIER:-quick}" > ".scratch/mut/seed-$ID-$c.out" 2>&1
  rc=$?
  key=$(grep -m1 '^  key=' ".scratch/mut/seed-$ID-$c.out" | cut -c1-200)
  results="$results $c:rc=$rc"
  echo "   check $c -> exit $rc $key"
done
cp "$SRC/patch.diff" "$SRC/demo.py" "$V/seeded/$ID/"
[ -f "$SRC/notes.md" ] && cp "$SRC/notes.md" "$V/seeded/$ID/agent_notes.md"
echo "seed $ID: demo clean=$demo_clean changed=$demo_changed tests='$tests' checks:$results"
git -C /repo worktree remove --force "$W"; git -C /repo worktree prune
rm -f /tmp/vt-demo-clean.$ID.out /tmp/vt-demo-changed.$ID.out
