#!/bin/sh
# round-N wrapper: tools/seed_verify3.sh <ID> <round> [checks...]  (source /tmp/seed<round>-<ID>, stored as seeded/<ID>-r<round>)
ID="$1"; R="$2"; shift 2
V="$(cd "$(dirname "$0")/.." && pwd)"
CHECKS="${*:-$ID}"
cd "$V" && tools/seed_verify.sh "${ID}-r${R}" "/tmp/seed${R}-${ID}" $CHECKS
