#!/usr/bin/env python3
"""Regenerates /verif/MANIFEST.json from the table below (only checks whose module exists are claimed)."""
import json, os

HERE = os.path.dirname(os.path.dirname(os.path.abspath(__file__)))
BASELINE = "cd /repo && /venv/bin/python -m pytest -ra -q -p no:cacheprovider --timeout=900 --continue-on-collection-errors"

E, F = "exploration", "fault_enumeration"
T = {
    "C01": (E, "reference-model monitor over recorded decode calls",
            "Every decode call of the workload is recorded and judged field-by-field against an independent interpreter of canboat.json (exact rational arithmetic). Quick: all 418 definitions x per-field boundary classes, combinations, raw bit patterns, generated variable-length strings. Thorough additionally sweeps every raw value of every field <= 12 bits. Held = no disagreement on the executions observed; not a proof.",
            "Trusts vf.refdb's reading of canboat.json; carve-outs listed in DESIGN.md C01 'Not judged'.", "2 C01"),
    "C02": (E, "round-trip monitor: decode -> encode, bit-mask equality against the original payload",
            "Real decoder then real encoder on generated payloads of all encodable definitions; the re-encoded payload must equal the original on every defined bit. Thorough sweeps every raw value of every field <= 16 bits.",
            "Field masks and encodability computed from canboat.json by vf.refdb.", "2 C02"),
    "C03": (E, "frame-trace monitor: harness-side fast-packet parser + payload ground truth, fed back into the real decoder",
            "All payload lengths 0..223 x all 8 sequence-counter states x 3 frame formats through the real segmentation code (stub codec seam), plus every encodable fast-packet definition through the public path; frames checked structurally and then reassembled by the real decoder call by call.",
            "Stub codec seam relies on the encoder looking codecs up by name in nmea2000.encoder; falls back to public path only if absent.", "2 C03"),
    "C04": (F, "history checker: per-position expected output computed from ground truth over enumerated frame histories",
            "Small-scope exhaustive enumeration of permutations x duplicate subsets x loss subsets x interleavings of 1-3 streams, plus long seeded random histories; each decode return value compared with the ground-truth expectation at that position.",
            "Fault model fixed in DESIGN.md C04 (first frames in order; duplicates bounded to the next message).", "2 C04"),
    "C05": (E, "exhaustive sweep with inline J1939 reference + public-path round trip",
            "Thorough: all 2^29 identifiers through parse/build with an inline integer reference. Quick: all priority x DP x PF x boundary (PS,SA). Both tiers: public encode->decode through every frame format for all known PGNs.",
            "Uses the internal static pair _extract_header/_build_header when present; public path otherwise.", "2 C05"),
    "C06": (E, "wire-format monitors: size/terminator/checksum predicates, same-format round trip, client re-framing in the simulator",
            "Encodable definitions x field classes x addressing x 4 formats; all 18x255 single-byte corruptions per sampled USB packet; packet concatenations re-cut by the real client receive paths.",
            "Simulated transport (asyncio stream layer is real).", "2 C06"),
    "C07": (E, "differential monitor across the five decode front-ends",
            "Harness-side packers render the same (identifier, data) in every input format and variant; projections of the returned messages must be equal; fast packets frame-wise vs pre-assembled.",
            "Harness packers (vf.wire) written from the format documents.", "2 C07"),
    "C08": (E, "reference dispatcher vs observed definition id",
            "All multi-definition PGNs x all combinations of match-field values from {own, sibling, none} x random remaining bits.",
            "vf.refdb.select implements the statement's rule.", "2 C08"),
    "C09": (E, "encode monitor: encode -> real decode vs assigned values; XOR locality",
            "Encodable definitions x assignments (in range, ends, between steps, absent, one step beyond, far out, negative, NaN/inf, oversize raws, each field removed).",
            "Any exception type counts as 'fails with an error'.", "2 C09"),
    "C10": (E, "differential monitor: filtered vs unfiltered decoder on the same history + statement predicate",
            "Filter configurations x histories of single frames, fast packets and address claims from several sources.",
            "Predicate taken from the statement (number or id, ids case-insensitive).", "2 C10"),
    "C11": (E, "history checker: reference identity per source address vs source_iso_name of returned messages",
            "Histories over 4 addresses (data before claim, re-claims, shared NAME, claims inside fast packets) x manufacturer lists x mapping on/off.",
            "Runs inside the decoder's 10-minute discovery window; wall clock not faked.", "2 C11"),
    "C12": (F, "trace checker: receive-callback sequence vs fresh decoder on the stream's packets, under enumerated read segmentations",
            "4 client types in the virtual-time simulator x streams of valid/filtered/unknown/malformed packets x segmentations x callback behaviours.",
            "Simulated transport; conformance sample on real loopback TCP.", "2 C12"),
    "C13": (F, "trace checker over virtual time: status/attempt/read traces, loop-monopoly detector, heartbeat",
            "Fault scripts (refusals, EOF, reset, write error, garbage) injected at every loop step x 4 client types.",
            "Simulated transport; bounded-progress restatement of liveness in virtual time.", "2 C13"),
    "C14": (F, "state sampling at every loop step, task census, status-callback trace checker",
            "close() injected at every loop step of every session shape x status callbacks ok/raise/slow x 4 client types.",
            "Simulated transport.", "2 C14"),
    "C15": (E, "round-trip monitor on to_json/from_json/encode + dump-file differ",
            "All supported definitions x generated payloads; dump filters by number/id/mixed/empty over histories.",
            "NaN compared as 'both NaN'.", "2 C15"),
    "C16": (E, "probe-after-history differential vs claims-only reference decoder",
            "Histories of valid/truncated/unknown/out-of-range/malformed inputs on one or several live instances, then probes.",
            "Address claims are the only inputs allowed to change later results.", "2 C16"),
    "C17": (E, "hash equivalence-class monitor incl. a second process with another PYTHONHASHSEED",
            "All definitions: payload pairs agreeing/differing on key and non-key fields, sources, unit preferences, decoder instances, processes.",
            "Key fields taken from canboat.json.", "2 C17"),
    "C18": (E, "differential monitor with/without unit preferences + exact conversion oracle",
            "Fields of the four convertible quantities and all others x value classes x preference maps in any letter case.",
            "Conversion constants from the statement; rounding tolerance = library's rounding step/2.", "2 C18"),
    "C19": (F, "gateway byte-log attribution under enumerated flow-control patterns and write failures",
            "2-4 concurrent send() tasks x pause/no-pause patterns x unencodable messages x failing writes x 4 clients.",
            "Simulated transport; conformance with a non-reading real peer.", "2 C19"),
    "C20": (F, "stream checker: clean-packet delivery, window validity, retained-bytes census at quiescence",
            "Streams of valid/corrupt/truncated packets and noise runs x segmentations on the Waveshare client.",
            "Retained bytes measured by object-graph walk of the client, no attribute names assumed.", "2 C20"),
}


def main():
    checks, na = [], []
    for cid, (level, tech, text, note, ref) in sorted(T.items()):
        if os.path.exists(os.path.join(HERE, "vf", "checks", cid.lower() + ".py")):
            checks.append({
                "property_id": cid,
                "quick_cmd": f"./check {cid} --tier quick",
                "thorough_cmd": f"./check {cid} --tier thorough",
                "evidence_file": f"/verif/evidence/{cid}.json",
                "replay_cmd_template": f"./check {cid} --replay {{path}}",
                "engine": "vf",
                "level_claimed": {"category": level, "text": text, "design_ref": "DESIGN.md section " + ref},
                "level_note": note,
                "technique": "runtime monitoring: " + tech,
            })
        else:
            na.append({"property_id": cid, "reason": "check not built yet (work in progress; runtime monitoring applies, see DESIGN.md)"})
    m = {
        "version": 1,
        "setup_cmd": "./setup.sh",
        "hooks": {"guard": "NMEA2000_VERIF", "enable": "no hooks in /repo are needed: every observation point is public API or an external-library seam (DESIGN.md 1.8)",
                  "baseline_off_cmd": BASELINE, "source_commits": [], "add_only": True},
        "engines": [{"name": "vf", "path": "/verif/vf", "serves_properties": [c["property_id"] for c in checks],
                     "kind_free_text": "runtime monitors: reference-model, differential and trace oracles over recorded executions of /repo's code; virtual-time asyncio loop + simulated gateway for the clients"}],
        "checks": checks,
        "notes": "Verdicts: exit 0 held (KNOWN-FINDING lines for listed findings), exit 1 VIOLATION, exit 2 INCONCLUSIVE (monitor never reached / watchdog). Known findings: /verif/KNOWN_FINDINGS.txt.",
        "not_applicable": na,
    }
    with open(os.path.join(HERE, "MANIFEST.json"), "w") as fh:
        json.dump(m, fh, indent=1)
        fh.write("\n")
    print("claimed", len(checks), "not yet", len(na))


if __name__ == "__main__":
    main()
