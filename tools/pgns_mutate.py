#!/usr/bin/env python3
"""Literal-mutation self-test for the generated per-PGN codecs (nmea2000/pgns.py).

usage: tools/pgns_mutate.py <n> <seed> [check ids...]      (default checks: C01)

Draws n random single-literal mutations of the generated decode side (bit offset, bit length, signedness,
resolution, range literal made tighter, field id / name / unit / quantity / type / key flag, lookup table entry,
message id / description / interval, dispatcher match value), applies each to a scratch copy of /repo (never /repo
itself), runs the given checks against the copy and reports which mutants survive. A survivor is then run against
the repository's own tests in the scratch copy: only survivors that also pass those tests count as misses.
"""
import os
import random
import re
import shutil
import subprocess
import sys
import tempfile

V = os.path.dirname(os.path.dirname(os.path.abspath(__file__)))
REPO = "/repo"


def candidates_encode(lines):
    out = []
    in_encode = False
    # only functions that can actually produce a payload: one unsupported field type makes the whole function raise,
    # so a mutation inside it is dead code
    dead = set()
    start = None
    for i, ln in enumerate(lines + ["def end"]):
        if ln.startswith("def "):
            start = i if ln.startswith("def encode_pgn_") else None
        elif start is not None and ("raise Exception(\"Encoding" in ln or "not supporting encoding" in ln):
            dead.add(start)
    cur = None
    for i, ln in enumerate(lines):
        if ln.startswith("def encode_pgn_"):
            in_encode = True
            cur = i
        elif ln.startswith("def "):
            in_encode = False
        if not in_encode or cur in dead:
            continue
        if re.search(r"field_value = encode_number\(field\.value, \d+, (True|False), ", ln):
            out.append((i, "enc_number"))
        elif re.match(r"    data_raw \|= \(field_value & 0x[0-9A-F]+\) << \d+$", ln):
            out.append((i, "enc_place"))
        elif re.match(r"    return data_raw\.to_bytes\(\d+, ", ln):
            out.append((i, "enc_length"))
        elif re.search(r"int\(round\(field\.raw_value / [^)]+\)\)", ln):
            out.append((i, "enc_timeres"))
        elif re.search(r"encode_time\(field\.value, \d+, (True|False)\)", ln):
            out.append((i, "enc_time"))
    return out


def mutate_encode(line, kind, rng):
    if kind == "enc_number":
        m = re.search(r"encode_number\(field\.value, (\d+), (True|False), ([^)]+)\)", line)
        bits, signed, res = m.groups()
        op = rng.choice(["bits+", "bits-", "signed", "res"])
        if op == "bits+":
            new = (str(int(bits) + 1), signed, res)
        elif op == "bits-":
            if int(bits) <= 2:
                return None
            new = (str(int(bits) - 1), signed, res)
        elif op == "signed":
            new = (bits, "False" if signed == "True" else "True", res)
        else:
            new = (bits, signed, repr(float(res) * rng.choice([10, 0.1, 2])))
        return line[:m.start()] + "encode_number(field.value, %s, %s, %s)" % new + line[m.end():], op
    if kind == "enc_place":
        m = re.match(r"    data_raw \|= \(field_value & (0x[0-9A-F]+)\) << (\d+)$", line)
        mask, sh = int(m.group(1), 16), int(m.group(2))
        op = rng.choice(["mask_short", "mask_long", "shift+", "shift-"])
        if op == "mask_short":
            if mask <= 1:
                return None
            mask >>= 1
        elif op == "mask_long":
            mask = (mask << 1) | 1
        elif op == "shift+":
            sh += 1
        else:
            if sh == 0:
                return None
            sh -= 1
        return "    data_raw |= (field_value & 0x%X) << %d" % (mask, sh), op
    if kind == "enc_length":
        m = re.match(r"(    return data_raw\.to_bytes\()(\d+)(, .*)$", line)
        n = int(m.group(2))
        return m.group(1) + str(n + rng.choice([1, -1]) if n > 1 else n + 1) + m.group(3), "length"
    if kind == "enc_timeres":
        m = re.search(r"field\.raw_value / ([^)]+)\)\)", line)
        return line[:m.start(1)] + repr(float(m.group(1)) * rng.choice([10, 0.1, 2])) + line[m.end(1):], "timeres"
    if kind == "enc_time":
        m = re.search(r"encode_time\(field\.value, (\d+), (True|False)\)", line)
        bits, signed = m.groups()
        if rng.random() < 0.5:
            return line[:m.start()] + "encode_time(field.value, %s, %s)" % (bits, "False" if signed == "True" else "True") + line[m.end():], "time_signed"
        return line[:m.start()] + "encode_time(field.value, %d, %s)" % (int(bits) - 1, signed) + line[m.end():], "time_bits"
    return None


def candidates(lines):
    out = []
    in_decode = False
    for i, ln in enumerate(lines):
        if ln.startswith("def decode_pgn_"):
            in_decode = True
        elif ln.startswith("def encode_pgn_") or ln.startswith("def is_fast_pgn_") or ln.startswith("def lookup_"):
            in_decode = False
        if in_decode:
            if re.search(r"= decode_number\(_data_raw_, running_bit_offset, \d+, (True|False), ", ln):
                out.append((i, "number"))
            elif re.match(r"    running_bit_offset = \d+$", ln):
                out.append((i, "offset"))
            elif re.search(r"decode_int\(_data_raw_, running_bit_offset, \d+\)", ln):
                out.append((i, "intbits"))
            elif "nmea2000Message.fields.append(NMEA2000Field('" in ln:
                out.append((i, "fieldmeta"))
            elif "nmea2000Message = NMEA2000Message(PGN=" in ln:
                out.append((i, "msgmeta"))
            elif re.search(r"\(\(\(data_raw >> \d+\) & 0x[0-9A-F]+\) == \d+\)", ln):
                out.append((i, "match"))
        if re.match(r"        \d+: \"", ln) and i < 20000:
            out.append((i, "lookup"))
    return out


def mutate(line, kind, rng):
    if kind == "number":
        m = re.search(r"decode_number\(_data_raw_, running_bit_offset, (\d+), (True|False), ([^,]+), ([^,]+), ([^)]+)\)", line)
        bits, signed, res, lo, hi = m.groups()
        op = rng.choice(["bits+", "bits-", "signed", "res", "tight_hi", "tight_lo"])
        if op == "bits+":
            new = (str(int(bits) + 1), signed, res, lo, hi)
        elif op == "bits-":
            if int(bits) <= 1:
                return None
            new = (str(int(bits) - 1), signed, res, lo, hi)
        elif op == "signed":
            new = (bits, "False" if signed == "True" else "True", res, lo, hi)
        elif op == "res":
            new = (bits, signed, repr(float(res) * rng.choice([10, 0.1, 2])), lo, hi)
        elif op == "tight_hi":
            try:
                h = float(hi)
            except ValueError:
                return None
            new = (bits, signed, res, lo, repr(h - abs(float(res)) * rng.choice([1, 3])))
        else:
            try:
                l_ = float(lo)
            except ValueError:
                return None
            new = (bits, signed, res, repr(l_ + abs(float(res)) * rng.choice([1, 3])), hi)
        return line[:m.start()] + "decode_number(_data_raw_, running_bit_offset, %s, %s, %s, %s, %s)" % new + line[m.end():], op
    if kind == "offset":
        n = int(line.split("=")[1])
        d = rng.choice([1, -1, 8])
        if n + d < 0:
            d = 1
        return "    running_bit_offset = %d" % (n + d), "offset%+d" % d
    if kind == "intbits":
        m = re.search(r"decode_int\(_data_raw_, running_bit_offset, (\d+)\)", line)
        b = int(m.group(1))
        nb = b + rng.choice([1, -1])
        if nb < 1:
            nb = b + 1
        return line[:m.start(1)] + str(nb) + line[m.end(1):], "intbits"
    if kind == "fieldmeta":
        op = rng.choice(["key", "unit", "id", "name", "pq", "type"])
        if op == "key":
            if line.rstrip().endswith("True))"):
                return line.rstrip()[:-6] + "False))", op
            if line.rstrip().endswith("False))"):
                return line.rstrip()[:-7] + "True))", op
            return None
        if op == "unit":
            m = re.search(r", '([A-Za-z/%]+)', ", line)
            if m and "NMEA2000Field('" in line[:m.start()]:
                return line[:m.start(1)] + ("m" if m.group(1) != "m" else "s") + line[m.end(1):], op
            return None
        if op == "id":
            m = re.search(r"NMEA2000Field\('([A-Za-z0-9_]+)'", line)
            return line[:m.start(1)] + m.group(1) + "X" + line[m.end(1):], op
        if op == "name":
            m = re.search(r"NMEA2000Field\('[A-Za-z0-9_]+', '([^']+)'", line)
            if not m:
                return None
            return line[:m.start(1)] + m.group(1) + " " + line[m.end(1):], op
        if op == "pq":
            m = re.search(r"PhysicalQuantities\.([A-Z_]+)", line)
            if not m:
                return None
            return line[:m.start(1)] + ("LENGTH" if m.group(1) != "LENGTH" else "SPEED") + line[m.end(1):], op
        m = re.search(r"FieldTypes\.([A-Z_]+)", line)
        return line[:m.start(1)] + ("NUMBER" if m.group(1) != "NUMBER" else "LOOKUP") + line[m.end(1):], op
    if kind == "msgmeta":
        op = rng.choice(["id", "description", "ttl"])
        if op == "id":
            m = re.search(r"id='([^']+)'", line)
            return line[:m.start(1)] + m.group(1) + "2" + line[m.end(1):], op
        if op == "description":
            m = re.search(r"description='([^']*)'", line)
            return line[:m.start(1)] + m.group(1) + "." + line[m.end(1):], op
        m = re.search(r"milliseconds=(\d+)", line)
        if not m:
            return None
        return line[:m.start(1)] + str(int(m.group(1)) + 1) + line[m.end(1):], op
    if kind == "match":
        m = re.search(r"== (\d+)\)", line)
        return line[:m.start(1)] + str(int(m.group(1)) ^ 1) + line[m.end(1):], "match"
    if kind == "lookup":
        m = re.match(r"(        \d+: \")(.*)(\",)$", line.rstrip())
        if not m:
            return None
        return m.group(1) + m.group(2) + "~" + m.group(3), "lookup"
    return None


def main():
    n, seed = int(sys.argv[1]), int(sys.argv[2])
    args = sys.argv[3:]
    encode_side = "--encode" in args
    checks = [a for a in args if not a.startswith("--")] or (["C02", "C09"] if encode_side else ["C01"])
    rng = random.Random(seed)
    src = open(os.path.join(REPO, "nmea2000", "pgns.py")).read().split("\n")
    cands = candidates_encode(src) if encode_side else candidates(src)
    by_kind = {}
    for i, k in cands:
        by_kind.setdefault(k, []).append(i)
    print("candidate sites:", {k: len(v) for k, v in by_kind.items()})
    kinds = sorted(by_kind)
    survivors, done = [], 0
    os.makedirs(os.path.join(V, ".scratch", "mut"), exist_ok=True)
    while done < n:
        kind = rng.choice(kinds)
        i = rng.choice(by_kind[kind])
        r = (mutate_encode if encode_side else mutate)(src[i], kind, rng)
        if not r:
            continue
        new_line, op = r
        if new_line == src[i]:
            continue
        done += 1
        d = tempfile.mkdtemp(prefix="pm-", dir="/tmp")
        try:
            shutil.copytree(os.path.join(REPO, "nmea2000"), os.path.join(d, "nmea2000"), ignore=shutil.ignore_patterns("__pycache__"))
            shutil.copy(os.path.join(REPO, "canboat.json"), d)
            lines = list(src)
            lines[i] = new_line
            open(os.path.join(d, "nmea2000", "pgns.py"), "w").write("\n".join(lines))
            caught_by = None
            env = dict(os.environ, VERIF_REPO=d, VERIF_EVIDENCE_DIR=os.path.join(V, ".scratch", "mut"), VERIF_REPLAY_DIR=os.path.join(V, ".scratch", "mut"))
            for c in checks:
                p = subprocess.run([os.path.join(V, "check"), c, "--tier", "quick"], env=env, capture_output=True, text=True, cwd=V)
                if p.returncode == 1:
                    caught_by = c
                    break
                if p.returncode == 2 and "harness import failed" in p.stdout:
                    caught_by = "does-not-import"
                    break
            tag = f"line {i + 1} [{kind}/{op}]"
            if caught_by:
                print(f"caught({caught_by}) {tag}")
            else:
                # does it at least pass the repository's own tests?
                shutil.copytree(os.path.join(REPO, "tests"), os.path.join(d, "tests"))
                for f in ("canboat.json",):
                    pass
                t = subprocess.run(["/venv/bin/python", "-m", "pytest", "-q", "-p", "no:cacheprovider", "-x", "--deselect", "tests/test_tcp_client.py"],
                                   cwd=d, capture_output=True, text=True)
                ok = " passed" in t.stdout and " failed" not in t.stdout
                print(f"SURVIVED {tag} tests_pass={ok}\n    - {src[i].strip()[:200]}\n    + {new_line.strip()[:200]}")
                if ok:
                    survivors.append((i + 1, kind, op))
        finally:
            shutil.rmtree(d, ignore_errors=True)
    print(f"pgns mutation: {done} mutants, {len(survivors)} survived the checks {checks} while passing the repository tests")
    for s_ in survivors:
        print("   survivor", s_)
    return 1 if survivors else 0


if __name__ == "__main__":
    sys.exit(main())
