#!/bin/sh
# round-2 wrapper: tools/seed_verify2.sh <ID> [checks...]  (source /tmp/seed2-<ID>, stored as seeded/<ID>-r2)
ID="$1"; shift
V="$(cd "$(dirname "$0")/.." && pwd)"
CHECKS="${*:-$ID}"
SRC=/tmp/seed2-$ID
# store under seeded/<ID>-r2 by temporarily pointing the destination name
sh -c "cd $V && ID2=${ID}-r2 && tools/seed_verify.sh ${ID}-r2 $SRC $CHECKS"
