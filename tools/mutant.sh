#!/bin/sh
# usage: tools/mutant.sh <patch-file|-e 'python-expr-on-source' > <check...>
# Applies a patch to a scratch copy of /repo (outside /repo and /verif), runs the given checks against it, removes the copy.
# Evidence/replays of mutant runs go to .scratch/mut so the committed evidence is never overwritten.
set -u
PATCH="$(realpath "$1")"; shift
D=$(mktemp -d /tmp/mut-XXXXXX)
mkdir -p "$D/repo"
rsync -a --exclude .git --exclude __pycache__ --exclude dumps --exclude tests /repo/ "$D/repo/"
( cd "$D/repo" && patch -p1 -s < "$PATCH" ) || { echo "PATCH FAILED"; rm -rf "$D"; exit 3; }
cd "$(dirname "$0")/.."
mkdir -p .scratch/mut
rc_all=0
for c in "$@"; do
  VERIF_REPO="$D/repo" VERIF_EVIDENCE_DIR="$(pwd)/.scratch/mut" VERIF_REPLAY_DIR="$(pwd)/.scratch/mut" ./check "$c" --tier "${TIER:-quick}" > ".scratch/mut/$c.out" 2>&1
  rc=$?
  echo "mutant $(basename "$PATCH") check $c -> exit $rc: $(grep -c '^VIOLATION' .scratch/mut/$c.out) violation line(s); $(grep -m1 'key=' .scratch/mut/$c.out | head -c 220)"
  [ $rc -ne 0 ] && rc_all=$rc
done
rm -rf "$D"
exit $rc_all
