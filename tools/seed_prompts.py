#!/usr/bin/env python3
"""Write the task descriptions for one round of independent seeded breakages.

usage: tools/seed_prompts.py <round> [ID ...]   ->  /tmp/seedprompts/<ID>-r<round>.txt

A sub-agent gets only the property's text, a scratch worktree /tmp/wt<round>-<ID> (created here) and the beginning
of the notes of earlier seeds for the same property (so that it does something else). Nothing about the checks.
"""
import glob
import json
import os
import subprocess
import sys

V = os.path.dirname(os.path.dirname(os.path.abspath(__file__)))

DIRECTIONS = {
    5: ("Welcome directions this round: behaviour that only shows with an unusual but legal CONFIGURATION of the public API "
        "(constructor arguments of NMEA2000Decoder / NMEA2000Encoder / the gateway clients that the tests never combine: "
        "preferred_units, build_network_map, include/exclude lists of several kinds at once, dump_to_file with dump_pgns, "
        "a client created but used in an unusual order: send before connect, connect twice, close twice, close then connect); "
        "a change in a shared helper (utils.py, message.py, consts.py) that only bites for one field type, one bit width, one sign, one "
        "resolution or one wire format; wrong handling at exactly one boundary (first/last element, 0, 1, maximum, empty); "
        "an exception type that changes (so a caller's except clause no longer matches); a value that is computed right but "
        "stored/reported in the wrong attribute; state that leaks from one call into the next through a mutable default, a "
        "class attribute or a module-level object; python pitfalls (is vs ==, int vs bytes, truthiness of 0/empty, "
        "late-binding closures, shared list multiplication, bytes vs bytearray, rounding mode, integer vs float division). "
        "Avoid what the earlier notes below already did."),
    6: ("Welcome directions this round: behaviour that only shows LATE or at SCALE - after a counter wrapped (the 3-bit fast-packet "
        "sequence counter, the 5-bit frame counter, more than 255 / 65535 of something), after a time threshold (the 10-minute "
        "discovery window, the retry back-off reaching its cap, a date or midnight roll-over, timestamps), with the largest legal "
        "inputs (223-byte fast packets, 31 frames, 64 KiB lines, 64-bit fields, the highest PGN / source / priority values), only on "
        "the SECOND use of something (second connection after a reconnect, second message on a stream, second decoder in the process, "
        "second call of a method on the same object), only for ONE of the wire formats / client types / field types while the others "
        "keep working, or only when TWO features are combined (filters + network map, unit preferences + dump file, send during "
        "reconnect, close during send). Also welcome: a change in error handling that turns a handled condition into an unhandled one "
        "or vice versa (exception class, re-raise, finally block, early return inside try), resource handling (a task / file / "
        "transport that is not released or is released twice), and mistakes in arithmetic on bytes and bits (shift by the wrong "
        "amount only visible for values >= 128 or >= 2**31, signed vs unsigned, endianness of a multi-byte field that the tests only "
        "exercise with palindromic or small values). Avoid what the earlier notes below already did."),
    7: ("Welcome directions this round: (1) state shared where it should be per instance - between two CLIENT objects or two ENCODER "
        "objects living in one process / one event loop (class attributes, module-level singletons, default arguments, caches), so that "
        "the second object misbehaves only because the first one exists or did something; (2) dependence on the process environment "
        "(log level, time zone, current date, working directory, event-loop debug mode, hash seed, import order); (3) tolerance of legal "
        "but unusual ARGUMENT TYPES at the public API (bytes vs bytearray vs memoryview, str with surrounding whitespace or a trailing "
        "newline, int vs float vs numpy-like numbers, enum vs its value, tuples instead of lists, upper/lower-case hex); (4) an "
        "exception raised at one point leaving an object half-updated so that the NEXT call misbehaves (a lock not released, a flag not "
        "reset, a buffer not trimmed, a dict entry left behind, a counter advanced twice); (5) ordering between two awaits or two "
        "statements swapped so that a window opens in which another task sees an inconsistent state; (6) code paths for the rarely "
        "used field types and definitions (STRING_LZ, STRING_LAU, variable-length BINARY, repeating field sets, MMSI, DECIMAL, FLOAT, "
        "64-bit fields, PGN-typed fields, ISO transport-protocol PGNs 60160/60416, ISO request/acknowledge, group functions 126208). "
        "Avoid what the earlier notes below already did."),
    8: ("Welcome directions this round: (1) messages that were NOT produced by the decoder: built by hand from NMEA2000Message / "
        "NMEA2000Field (minimal constructor arguments, fields in another order than the definition, an extra unknown field, a duplicated "
        "field id, value given but raw_value None or the other way round, id in another letter case), parsed with from_json() from JSON "
        "written by hand or by an older version, or decoded by one decoder and passed on to an encoder / client / to_json of another; "
        "(2) numeric and type edge cases of field values: int vs float vs bool vs numeric string, negative zero, values exactly on a "
        "rounding tie, the largest / smallest representable value of every width, resolution with many decimals, signed fields one bit "
        "wide, fields that straddle a byte or a 32/64-bit boundary, lookup values given as int vs str vs enum; (3) the ORDER of public "
        "calls: set_receive_callback / set_status_callback after connect(), replacing or clearing a callback mid-session, send() "
        "before connect(), connect() twice, close() then send(), decoder.close() then decode, constructing many objects and dropping "
        "them; (4) the less travelled public entry points and parameters: decode_basic_string(already_combined=False) frame by frame, "
        "decode_actisense_string with lower-case hex or a long uptime, decode_yacht_devices_string with T (transmit echo) lines, "
        "dump_pgns given as ids, include lists mixing numbers and ids, preferred_units with the less common units (f, psi), IsoName "
        "parsing of unusual NAMEs, the ISO request seeding of the network map, the Waveshare configuration packet; (5) anything in "
        "the interplay of TWO of the 20 areas (filters x fast packets, unit preferences x JSON, network map x reconnect, dump file x "
        "close, send x close, noise x reconnect). Avoid what the earlier notes below already did."),
    9: ("Welcome directions this round: (1) a change that is wrong for ONE specific definition, field, lookup entry, PGN number, "
        "address or byte value only (one of the 418 generated decoders / encoders edited by hand, one table entry, one special-cased "
        "PGN such as 59904 / 60928 / 126996 / 129029, source address 254 or 255, priority 7, a payload byte 0xFF / 0x00 / 0x7F in one "
        "position) while everything else keeps working; (2) behaviour that depends on the CONTENT of the previous message or frame, "
        "not only on protocol state: de-duplication of identical consecutive frames or messages, delta / change detection, rate "
        "limiting per PGN or per source, 'only log / only forward when changed', caches keyed by payload; (3) slow leaks and "
        "accumulation: a task, file handle, list element or dict entry per message / per reconnect / per unknown PGN that is never "
        "released and changes behaviour once there are many; (4) intermittent behaviour: dependence on set / dict iteration order, on "
        "id() or hash values, on which of two ready tasks runs first, on time.time() / datetime.now() values, on random numbers; "
        "(5) wrong behaviour only on the error path of an error path (an exception raised while handling another one, a finally "
        "block that masks the original exception, a retry that retries the wrong thing, a log call that raises); (6) API contracts "
        "of the async layer: awaiting something under a lock that the same task takes again, create_task without keeping a "
        "reference, cancellation arriving inside a critical section, a callback that is itself calling send() / close() / connect() "
        "on the client (re-entrancy). Avoid what the earlier notes below already did."),
    10: ("This round, work from the STATEMENT: split it into its individual clauses (every 'and', every quantifier, every exception it "
         "grants), look at the nine earlier changes listed below, and pick the clause - or the part of the quantified input space - that "
         "they have exercised LEAST. Then break exactly that. Assume that whoever checks this property already runs a strong randomised "
         "test of it (random valid and boundary inputs, random histories and interleavings, faults at every step, several objects per "
         "process, odd configurations, moving clocks): your change must survive such a test unless it deliberately constructs the "
         "triggering situation - so make the trigger a precise conjunction (three conditions that are each common but rarely coincide), "
         "a value that random generation practically never produces (one specific 29-bit identifier, one specific 64-bit NAME, an exact "
         "string, an exact length, an exact count such as the 256th or 65536th occurrence), or an order of events that a generator "
         "biased towards 'typical' sessions does not emit. It must still be something a real user could meet. Say in your notes which "
         "clause you chose and why you think it was the least exercised. Avoid what the earlier notes below already did."),
    11: ("This round, work from the STATEMENT and from the CODE PATHS: list the functions and branches in the files named above that "
         "take part in this property, mark those that the ten earlier changes listed below have touched, and put your change into a "
         "function or branch that none of them touched (if all were touched, into a different statement of it with a different "
         "effect). Assume that whoever checks this property already runs a strong randomised and enumerative test of it (random valid "
         "and boundary inputs, every field class, random histories and interleavings with loss / duplication / reordering, faults "
         "and close() at every event-loop step, several objects and clients per process, odd configurations and argument types, moving "
         "and backward clocks, other time zones, log levels, python -O, sessions of thousands of messages): your change must survive "
         "that unless the trigger is deliberately constructed - a precise conjunction of three or four conditions, one exact value "
         "out of a 16-, 32- or 64-bit space that is neither a boundary nor a table entry, an exact count, or an order of events that "
         "'typical' sessions do not contain - and it must still be something a real installation could meet. Say in your notes which "
         "code path you chose and why. Avoid what the earlier notes below already did."),
    12: ("This round, write the change the way real regressions arrive: as a PULL REQUEST that a maintainer would plausibly merge - a "
         "performance optimisation (a cache, a precomputed table, a fast path, fewer allocations, batching), a refactor that moves "
         "logic between two or three functions or files, a new optional feature or parameter with a default that 'changes nothing', a "
         "dependency or Python-version clean-up (bytes/bytearray/memoryview, int/float, round(), str methods, dict ordering, default "
         "arguments, dataclasses/slots, asyncio API variants such as wait_for/timeout/TaskGroup/shield), or a robustness 'fix' of the "
         "error handling. The change must touch at least two functions and read as an improvement; the breakage is a SIDE EFFECT the "
         "author did not think about. The trigger must NOT be a literal constant that the diff spells out (no `if x == 65226`, no "
         "magic byte strings): it has to arise from the structure of the data or of the session - aliasing between two objects that "
         "used to be independent copies, a mutable default or class attribute, ordering or tie-breaking, a value computed from "
         "lengths / bit widths / resolutions that is off by one for one family of definitions, an integer/float or signed/unsigned "
         "conversion, an exception of a class the new code does not expect, a cancellation or timeout that lands between two "
         "statements that used to be adjacent, an iterator or buffer that is consumed or reused, state that outlives the call that "
         "needed it. Assume the checker already runs strong randomised, enumerative and fault-injection tests as described in the "
         "earlier notes below; say in your notes why you expect your change to survive them. Avoid what the earlier notes did."),
    13: ("This round the change is again a plausible PULL REQUEST (optimisation, refactor, clean-up, small feature), but the breakage "
         "must show through HOW AN APPLICATION EMBEDS the library rather than through unusual bus data. Pick ONE of these and make "
         "the property fail there while everything else stays correct: objects that are copied or serialised (copy.copy / deepcopy / "
         "pickle / dataclasses.replace / asdict / to_json+from_json) and then used; objects compared, hashed or used as dict/set keys; "
         "an application SUBCLASS of a library class (overriding or adding attributes or methods, calling super().__init__ late); the "
         "same argument OBJECTS (lists, dicts) passed to two constructors or changed by the application afterwards; an object used for "
         "a second session (close() and a new object with the same arguments; a client connected, closed, and a new client created in "
         "a second event loop or a second asyncio.run in the same process); objects that are dropped without close() and garbage "
         "collected while others live on (__del__, weakref, reference cycles, module-level registries); repr()/str()/to_json()/logging "
         "of an object at an odd moment having a side effect; interpreter modes (python -X dev, PYTHONASYNCIODEBUG=1, -W error, "
         "gc.disable(), another recursion limit, sys.setswitchinterval) or two threads each using objects of their own. The checker "
         "already runs what the earlier notes describe, including: other decoders with other settings decoding the same input in the "
         "same process, packets handed over in reused buffers, returned messages overwritten by the caller, one decoder per thread, "
         "address claims between frames, very long lossy sessions, a transport that keeps unsent data by reference, a port that "
         "never runs dry. Your change has to survive all of that; say in your notes why you expect it to. No literal trigger constants."),
    14: ("This round: HALF-DONE OPERATIONS. Your pull request (a refactor, an optimisation, better error handling, tidier resource "
         "management) makes some operation of the library non-atomic or reorders its steps: state is updated BEFORE the validation that "
         "may still reject the input instead of after it; an early return / continue / break skips bookkeeping that used to run; "
         "cleanup moved from `finally` to `except` (or the other way round, or to the wrong branch); a resource acquired or released "
         "twice; two updates that belong together separated by something that can raise, be cancelled, time out or yield to another "
         "task; a counter or flag reset on the error path but not on the success path (or vice versa); an object handed out before it "
         "is complete. The TRIGGER must be an ORDINARY event the library already copes with - a frame with a bad checksum, an "
         "out-of-range field, an undecodable payload, a duplicate or missing frame, a refused connection, a link lost at an awkward "
         "moment, a cancelled or slow callback, a send that fails, close() during something - and the DAMAGE must show only in a LATER, "
         "perfectly normal operation (the next message of that stream, the next connection, the next send, the next decoder call with "
         "a valid input), not in the operation that failed. The checker already runs everything the earlier notes describe (including "
         "faults and close() at every event-loop step, rejected inputs removed from histories and the rest compared, neighbours, "
         "copies, threads, warnings as errors). Say in your notes which pair of steps you separated and why the existing checks "
         "should miss it. No literal trigger constants."),
    15: ("This round: FEATURE INTERACTIONS AT STRUCTURAL EXTREMES. Read the 'Quantified over' text above and pick a corner of it that is "
         "legal but structurally extreme or degenerate - the longest and the shortest definitions, messages that fill their last frame "
         "exactly or leave one byte over, a fast-packet message of one frame, every source address at once, an empty / one-element / "
         "duplicated / overlapping filter list, a filter that names everything, the same input given thousands of times or two inputs "
         "alternating, a dump file that already exists / is a directory / is shared, a client whose gateway answers instantly or never, "
         "a stream that is all one packet repeated, timestamps that are equal, fields that are all 'not available' - and combine it with "
         "ONE other feature of the library that this property does not name (unit preferences, network map, manufacturer filters, id "
         "filters, dumping, JSON, the encoder's sequence counter, the client's queue / callbacks / reconnect / seeding of the network "
         "map). Your pull request (any plausible kind) must break the property only in that combination; each feature alone and the "
         "extreme alone must keep working. The checker already runs everything the earlier notes describe (hostile neighbour decoders, "
         "copies, subclasses, threads, warnings as errors, refused inputs right before good ones, losses noticed by reader and by "
         "sender, long lossy sessions, saturated ports ...). Say in your notes which corner and which second feature you combined and "
         "why the existing checks should miss it. No literal trigger constants."),
}


def main():
    rnd = int(sys.argv[1])
    ids = sys.argv[2:]
    props = {}
    for line in open(os.path.join(V, "properties.jsonl")):
        d = json.loads(line)
        props[d["id"]] = d
    if not ids:
        ids = sorted(props)
    os.makedirs("/tmp/seedprompts", exist_ok=True)
    for pid in ids:
        p = props[pid]
        wt = f"/tmp/wt{rnd}-{pid}"
        sd = f"/tmp/seed{rnd}-{pid}"
        if not os.path.isdir(wt):
            subprocess.run(["git", "-C", "/repo", "worktree", "add", "--detach", wt, "HEAD"], check=True, capture_output=True)
        earlier = []
        for d in sorted(glob.glob(os.path.join(V, "seeded", pid + "*"))):
            n = os.path.join(d, "agent_notes.md")
            if os.path.exists(n):
                txt = " ".join(open(n).read().split())
                earlier.append(txt[:330])
        files = ", ".join(f for f in p["anchors"]["files"] if f.startswith("nmea2000/"))
        text = f"""You are helping to evaluate a verification harness for the Python library tomer-w/nmea2000 (NMEA 2000 encoder/decoder + asyncio gateway clients).

You have your own scratch git worktree of the repository at {wt} (already created, detached HEAD). Work ONLY inside {wt} and {sd}/ (create the latter). Do NOT read or modify /repo or /verif or any other /tmp/wt* or /tmp/seed* directory (off limits; do not look at them at all). The interpreter is /venv/bin/python (3.12); the repository's tests run with:  cd {wt} && /venv/bin/python -m pytest -q -p no:cacheprovider   (71 tests, all pass on the unmodified tree; when run from the worktree they import the worktree's copy of the package). Other engineers run the same suite concurrently and the client tests bind the fixed TCP port 8881: if tests in tests/test_tcp_client.py fail with 'address already in use' or a timeout, re-run the suite after a few seconds. There is no network. jinja2 is not installed, so nmea2000/pgns.py (generated, 59k lines) can only be edited by hand. Do NOT use `git stash` (the stash is shared between worktrees); to test the clean tree use `git -C {wt} apply -R {sd}/patch.diff` and afterwards `git -C {wt} apply {sd}/patch.diff`, or `git -C {wt} archive HEAD | tar -x -C <tmpdir>`.

PROPERTY {pid}: {p.get('title', '')}
Statement: {p.get('statement', '')}
Quantified over: {p['quantifier']['text']}
Files where the behaviour lives: {files}

YOUR TASK: produce ONE realistic change (a bug a developer could plausibly introduce: a refactor slip, an 'optimisation', an off-by-one, a wrong condition, a dropped special case, a changed constant, two sites that each look fine alone) to the library source under {wt}/nmea2000/ that BREAKS this property, while
  (a) the package still imports, and ALL 71 existing tests still pass with your change, and
  (b) the breakage needs something specific to manifest - a particular interleaving or event-loop step, a fault at a particular point, a multi-step sequence of operations, an unusual input value/length/field combination, an unusual configuration, or two cooperating sites - i.e. NOT something that ordinary use or the simplest smoke test would expose at once. Prefer subtle over blatant: the change should survive a casual code review.
Earlier engineers already produced these changes for this property (beginning of their notes):
""" + "\n".join(f"  ({k + 1}) {e}" for k, e in enumerate(earlier)) + f"""
Produce something DIFFERENT from all of them: another mechanism, another code site, another clause of the statement. {DIRECTIONS[rnd]}
Also write a demonstration: a small self-contained Python program {sd}/demo.py (run as: PYTHONPATH=<tree> /venv/bin/python {sd}/demo.py, where <tree> is the root of a checkout; it must import nmea2000 from PYTHONPATH) that exits 0 on the unmodified tree and exits non-zero (with a clear message saying what went wrong) on the tree with your change. The demo must exercise the public API (decoder/encoder/message/client classes); for client properties you may use a local asyncio TCP server on 127.0.0.1 with an ephemeral port (port 0) or monkeypatch asyncio.open_connection in the demo.

Deliverables in {sd}/ :
  patch.diff  - output of `git -C {wt} diff` (unified diff against HEAD, applies with `git apply` at the repo root)
  demo.py     - as described
  notes.md    - 5-15 lines: what the change is, why it breaks the property, what exactly it needs in order to manifest, and the commands you ran (tests with the change: pass count; demo on clean tree: exit code; demo on changed tree: exit code).
Verify all of it yourself before finishing: run the full test-suite with the change applied (must be 71 passed), run the demo against the changed worktree (must fail) and against a clean tree (must pass). Leave the worktree WITH your change applied when you finish, and check that `git -C {wt} diff` is exactly your patch.diff. Your final message should be a 3-line summary (what you changed, how it manifests, verification results).
"""
        open(f"/tmp/seedprompts/{pid}-r{rnd}.txt", "w").write(text)
        print(pid, len(text), "earlier:", len(earlier))


if __name__ == "__main__":
    main()
