#!/bin/sh
# Offline setup: nothing to build or install - verify the interpreter, the library under test and the database.
cd "$(dirname "$0")" || exit 1
mkdir -p .scratch evidence replays
PYTHONDONTWRITEBYTECODE=1 /venv/bin/python -B -c "
import sys; sys.path.insert(0, '.')
from vf import lib, refdb
d = refdb.db()
print('setup ok: python', sys.version.split()[0], 'definitions', len(d.defs))
"
