"""Known-findings file reader.  The file is committed and never written at run time.

    known: property=C01 key=<mechanism-key> <what fails>
    fixed: property=C13 <commit> <what failed>          (suppresses nothing)
"""
import os, re

PATH = os.path.join(os.path.dirname(os.path.dirname(os.path.abspath(__file__))), "KNOWN_FINDINGS.txt")
_RX = re.compile(r"^known:\s+property=(C\d+)\s+key=(\S+)\s+(.*)$")


def load(path: str = PATH) -> dict:
    out: dict = {}
    if not os.path.exists(path):
        return out
    with open(path) as fh:
        for line in fh:
            m = _RX.match(line.strip())
            if m:
                out.setdefault(m.group(1), {})[m.group(2)] = m.group(3)
    return out
