"""Virtual-time asyncio event loop with a step counter and a between-iterations hook.

Only time and blocking are virtual: the loop is asyncio's own SelectorEventLoop, so task switching,
call_soon/call_later ordering, futures, StreamReader/StreamWriter, locks and queues are the real code.
"""
from __future__ import annotations

import asyncio
import selectors


class QuiescentDeadlock(BaseException):
    """Nothing is runnable, no timer is pending: the simulated world has nothing left to do."""


class _VSelector:
    """Never blocks: a requested timeout is added to the virtual clock instead."""

    def __init__(self):
        self._real = selectors.DefaultSelector()
        self.loop = None

    def select(self, timeout=None):
        events = self._real.select(0)
        if events:
            return events
        if timeout is None:
            raise QuiescentDeadlock()
        if timeout > 0:
            self.loop._vtime += timeout
        return events

    def register(self, *a, **k):
        return self._real.register(*a, **k)

    def unregister(self, *a, **k):
        return self._real.unregister(*a, **k)

    def modify(self, *a, **k):
        return self._real.modify(*a, **k)

    def get_key(self, *a, **k):
        return self._real.get_key(*a, **k)

    def get_map(self):
        return self._real.get_map()

    def close(self):
        self._real.close()


class VirtualLoop(asyncio.SelectorEventLoop):
    def __init__(self):
        sel = _VSelector()
        self._vtime = 1000.0
        super().__init__(selector=sel)
        sel.loop = self
        self.steps = 0
        self._step_actions: dict[int, list] = {}
        self.step_observers: list = []
        self.slow_callback_duration = 1e9

    def time(self):
        return self._vtime

    # -- step machinery ----------------------------------------------------
    def at_step(self, k: int, fn):
        """Run fn() between loop iterations, just before iteration number k (>= current step)."""
        self._step_actions.setdefault(max(k, self.steps), []).append(fn)

    def _run_once(self):
        for fn in self._step_actions.pop(self.steps, ()):  # external world acts between iterations
            fn()
        for ob in self.step_observers:
            ob(self)
        self.steps += 1
        super()._run_once()


_STALLS = [0]


class TooManyStalls(BaseException):
    """Five sessions of this process have stalled: the verdict is in, the rest of the shard is not run."""


class StepStalled(BaseException):
    """One loop iteration ran for STALL_SECONDS of wall clock: something in it does not return."""


STALL_SECONDS = float(__import__("os").environ.get("VERIF_STALL_SECONDS", "20"))


def run(main_factory, max_steps: int = 200_000):
    """Run main_factory(loop) -> coroutine on a fresh VirtualLoop. Returns (result, loop_stats).
    Leftover tasks are cancelled before the loop is closed."""
    if _STALLS[0] >= 5:
        raise TooManyStalls()
    loop = VirtualLoop()
    asyncio.set_event_loop(loop)
    guard = {"tripped": False}

    import signal

    def on_alarm(signum, frame):
        guard["stalled"] = True
        raise StepStalled()

    def step_guard(lp):
        if lp.steps > max_steps:
            guard["tripped"] = True
            raise QuiescentDeadlock()
        # re-armed before every iteration: fires only if ONE iteration takes STALL_SECONDS (a callback that never returns);
        # the code that was running gets the exception, the session goes on and is reported as stalled
        # (once sessions have stalled in this process the following ones get a short limit: the verdict is in, this only
        # keeps a check on a hanging tree from taking hours)
        signal.setitimer(signal.ITIMER_REAL, STALL_SECONDS if _STALLS[0] < 2 else min(STALL_SECONDS, 2.0))
    old_handler = signal.signal(signal.SIGALRM, on_alarm)
    loop.step_observers.append(step_guard)
    result = None
    err = None
    try:
        result = loop.run_until_complete(main_factory(loop))
    except QuiescentDeadlock as e:
        err = "step-budget-exceeded" if guard["tripped"] else "quiescent-deadlock"
    except StepStalled:
        err = "loop-step-stalled"
    finally:
        signal.setitimer(signal.ITIMER_REAL, 0)
        signal.signal(signal.SIGALRM, old_handler)
        if guard.get("stalled"):
            err = "loop-step-stalled"
            _STALLS[0] += 1
        try:
            loop.step_observers.clear()
            pending = [t for t in asyncio.all_tasks(loop) if not t.done()]
            for t in pending:
                t.cancel()
            if pending:
                try:
                    loop.run_until_complete(asyncio.gather(*pending, return_exceptions=True))
                except BaseException:  # noqa: BLE001
                    pass
        finally:
            asyncio.set_event_loop(None)
            loop.close()
    return result, {"steps": loop.steps, "vtime": loop._vtime - 1000.0, "error": err}


import contextlib as _ctx


@_ctx.contextmanager
def real_loop_guard(seconds: float):
    """Around asyncio.run() on a real event loop (conformance runs): a callback of the code under test that never
    returns would hang the process until the shard watchdog fires; instead StepStalled is raised after `seconds`."""
    import signal

    def _alarm(signum, frame):
        raise StepStalled()
    old = signal.signal(signal.SIGALRM, _alarm)
    signal.setitimer(signal.ITIMER_REAL, seconds)
    try:
        yield
    finally:
        signal.setitimer(signal.ITIMER_REAL, 0)
        signal.signal(signal.SIGALRM, old)
