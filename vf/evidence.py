"""Evidence writer (EVIDENCE.schema.json)."""
import json, os

VERIF_DIR = os.path.dirname(os.path.dirname(os.path.abspath(__file__)))


def _default(o):
    if isinstance(o, (bytes, bytearray)):
        return o.hex()
    return repr(o)


def write(mod, acc, tier, seed, wall, n_unknown, known_seen, verdict):
    cov = {
        "evaluations": acc.evaluations,
        "distinct_nontrivial": len(acc.nontrivial),
        "rule": mod.RULE + (f" (distinct-hash set capped at 250000 per shard; {acc.nontrivial_overflow} further non-trivial cases not hashed)"
                            if acc.nontrivial_overflow else ""),
        "samples": acc.samples[:14] or ["<none recorded>"],
        "exhaustive": bool(acc.exhaustive) and all(acc.exhaustive.values()),
        "exhaustive_subspaces": acc.exhaustive,
        "oracle_counters": dict(sorted(acc.counters.items())),
        "tables": {k: dict(sorted(v.items())[:400]) for k, v in sorted(acc.tables.items())},
        "table_sizes": {k: len(v) for k, v in acc.tables.items()},
        "known_findings_observed": known_seen,
        "inconclusive_reasons": acc.inconclusive,
        "verdict": verdict,
        "notes": acc.notes,
    }
    doc = {
        "property_id": mod.ID,
        "tier": tier,
        "seed": int(seed),
        "level": mod.LEVEL,
        "coverage": cov,
        "assumptions": list(getattr(mod, "ASSUMPTIONS", [])),
        "wall_s": round(wall, 2),
        "violations": int(n_unknown),
    }
    edir = os.environ.get("VERIF_EVIDENCE_DIR") or os.path.join(VERIF_DIR, "evidence")
    os.makedirs(edir, exist_ok=True)
    path = os.path.join(edir, f"{mod.ID}.json")
    tmp = path + ".tmp"
    with open(tmp, "w") as fh:
        json.dump(doc, fh, indent=1, default=_default)
        fh.write("\n")
    os.replace(tmp, path)
    return path
