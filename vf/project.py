"""Canonical projections of library objects and the reference comparison used by C01."""
from __future__ import annotations

import math
from datetime import date, time
from fractions import Fraction

from .lib import PhysicalQuantities, FieldTypes
from . import gen


def _norm(v):
    if isinstance(v, float) and math.isnan(v):
        return "NaN"
    if isinstance(v, (bytes, bytearray)):
        return ("bytes", bytes(v).hex())
    if isinstance(v, (date, time)):
        return (type(v).__name__, v.isoformat())
    return v


def iso_proj(n):
    if n is None:
        return None
    return (n.unique_number, n.manufacturer_code, n.device_instance, n.device_function, n.device_class,
            n.system_instance, n.industry_group, n.arbitrary_address_capable, n.name)


def field_proj(f):
    return (f.id, f.name, f.unit_of_measurement, _norm(f.value), _norm(f.raw_value),
            f.physical_quantities, f.type, f.part_of_primary_key)


def msg_proj(m, with_iso=True, with_hash=True):
    """Everything the properties name; never timestamps or raw_can_data."""
    if m is None:
        return None
    return (m.PGN, m.id, m.description, m.ttl, m.source, m.destination, m.priority,
            tuple(field_proj(f) for f in m.fields),
            iso_proj(m.source_iso_name) if with_iso else None,
            m.hash if with_hash else None)


def msg_brief(m):
    if m is None:
        return None
    return {"PGN": m.PGN, "id": m.id, "src": m.source, "dst": m.destination, "prio": m.priority,
            "fields": [[f.id, repr(f.value), repr(f.raw_value)] for f in m.fields]}


def num_close(lib, exp: Fraction, res: Fraction | None = None) -> bool:
    if lib is None or isinstance(lib, bool) or not isinstance(lib, (int, float)):
        return False
    if isinstance(lib, float) and not math.isfinite(lib):
        return False
    e = float(exp)
    tol = 1e-11 * max(1.0, abs(e))
    return abs(float(lib) - e) <= tol


def compare_to_ref(dbx, d, payload: int, msg, expected=None):
    """Differences between a returned message and the reference model: list of
    (field_id, aspect, expected, got, extra) ; extra carries classifier hints."""
    diffs = []
    if msg.PGN != d.pgn:
        diffs.append(("<msg>", "PGN", d.pgn, msg.PGN, {}))
    if msg.id != d.id:
        diffs.append(("<msg>", "id", d.id, msg.id, {}))
    if msg.description != d.description:
        diffs.append(("<msg>", "description", d.description, msg.description, {}))
    if msg.ttl != d.ttl:
        diffs.append(("<msg>", "ttl", repr(d.ttl), repr(msg.ttl), {}))
    exp = expected if expected is not None else dbx.unpack(d, payload)
    judged = [e for e in exp if e["kind"] not in ("unsupported", "skip")]
    if len(msg.fields) < len(judged) or (len(judged) == len(exp) and len(msg.fields) != len(exp)):
        diffs.append(("<msg>", "field_count", len(judged), len(msg.fields), {}))
    for i, e in enumerate(judged):
        if i >= len(msg.fields):
            break
        f = e["field"]
        lf = msg.fields[i]
        fid = f.id
        if lf.id != f.id:
            diffs.append((fid, "id", f.id, lf.id, {}))
        if lf.name != f.name:
            diffs.append((fid, "name", f.name, lf.name, {}))
        if lf.unit_of_measurement != f.unit:
            diffs.append((fid, "unit", f.unit, lf.unit_of_measurement, {}))
        epq = getattr(PhysicalQuantities, f.pq) if f.pq else None
        if lf.physical_quantities != epq:
            diffs.append((fid, "physical_quantity", str(epq), str(lf.physical_quantities), {}))
        if lf.type != getattr(FieldTypes, f.ftype):
            diffs.append((fid, "type", f.ftype, str(lf.type), {}))
        if bool(lf.part_of_primary_key) != f.pk:
            diffs.append((fid, "primary_key", f.pk, lf.part_of_primary_key, {}))
        k = e["kind"]
        v, rv = lf.value, lf.raw_value
        hint = {"kind": k, "has_offset": f.offset is not None, "raw_int": e.get("raw_int"), "ftype": f.ftype,
                "bits": f.bits, "signed": f.signed}
        if k == "num":
            if e["value"] is None:
                if v is not None:
                    diffs.append((fid, "value_not_absent", None, repr(v), hint))
            else:
                if not num_close(v, e["value"]):
                    h = dict(hint)
                    if f.offset is not None and v is not None and isinstance(v, (int, float)) and \
                            num_close(v, e["value"] - f.offset):
                        h["offset_dropped"] = True
                    diffs.append((fid, "value", str(e["value"]), repr(v), h))
                # raw_value: the library's convention (scaled) or the integer raw are both accepted
                if not (num_close(rv, e["value"]) or rv == e["raw_int"] or rv == f.sign_extend(e["raw_int"])
                        or (f.offset is not None and num_close(rv, e["value"] - f.offset))):
                    diffs.append((fid, "raw_value", str(e["value"]), repr(rv), hint))
        elif k in ("time", "date"):
            if e["raw"] is None:
                if v is not None:
                    diffs.append((fid, "value_not_absent", None, repr(v), hint))
            else:
                if not (num_close(rv, e["raw"]) or rv == e["raw_int"]):
                    diffs.append((fid, "raw_value", str(e["raw"]), repr(rv), hint))
                if e["value"] != "unjudged":
                    ok = False
                    if k == "time" and isinstance(v, time):
                        ok = (v.hour, v.minute, v.second) == (e["value"].hour, e["value"].minute, e["value"].second)
                    elif k == "date" and isinstance(v, date):
                        ok = v == e["value"]
                    if not ok:
                        diffs.append((fid, "value", repr(e["value"]), repr(v), hint))
        elif k in ("lookup", "indirect"):
            if rv != e["raw"]:
                diffs.append((fid, "raw_value", e["raw"], repr(rv), hint))
            if v != e["value"]:
                diffs.append((fid, "value", e["value"], repr(v), hint))
        elif k == "bitlookup":
            if rv != e["raw"]:
                diffs.append((fid, "raw_value", e["raw"], repr(rv), hint))
            if v != ", ".join(e["value"]) and not (isinstance(v, (list, tuple)) and list(v) == e["value"]):
                diffs.append((fid, "value", ", ".join(e["value"]), repr(v), hint))
        elif k == "float":
            ev = e["value"]
            if math.isnan(ev):
                ok = isinstance(v, float) and math.isnan(v)
            else:
                ok = isinstance(v, (int, float)) and v == ev
            if not ok:
                diffs.append((fid, "value", repr(ev), repr(v), hint))
        elif k == "int":
            if v != e["value"]:
                diffs.append((fid, "value", e["value"], repr(v), hint))
            if rv != e["value"]:
                diffs.append((fid, "raw_value", e["value"], repr(rv), hint))
        elif k == "binary":
            got = int.from_bytes(v, "big") if isinstance(v, (bytes, bytearray)) else v
            if got != e["value"]:
                diffs.append((fid, "value", hex(e["value"]), repr(v), hint))
        elif k == "strfix":
            ev = e.get("expected_text")
            if ev is not None and v != ev:
                diffs.append((fid, "value", ev, repr(v), hint))
        elif k == "str":
            if e.get("judge_text", False) and v != e["value"]:
                diffs.append((fid, "value", e["value"], repr(v), hint))
    return diffs
