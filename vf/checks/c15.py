"""C15 - JSON round-trips to an equivalent, re-encodable message; the dump file is faithful."""
from __future__ import annotations

import json
import math
import os
import shutil
from datetime import date, time

from ..lib import NMEA2000Decoder, NMEA2000Encoder, NMEA2000Message, PhysicalQuantities
from .. import refdb, gen, wire, hist, runner, project
from .c01 import fixed_cases, variable_cases

ID = "C15"
LEVEL = "exploration"
RULE = ("cases = (a) decodable messages of every supported definition (field classes, strings with non-ASCII text, "
        "binary, absent values, 64-bit values, non-finite floats, with and without source identity): to_json() must be "
        "valid JSON, from_json() must give the same PGN/id/addressing and per field the same id, value and raw value "
        "under the stated renderings, and must encode to the same bytes as the original when that encodes; (b) "
        "(dump filter, history): the dump file must contain exactly the JSON of the returned messages matching the "
        "filter, one per line, in order; non-trivial = a message that went through to_json -> from_json -> compare, or "
        "a dump run whose filter both kept and skipped messages; distinct = distinct (definition, payload) / (filter, history)")
ASSUMPTIONS = ["renderings: bytes as hex text, dates/times as ISO text, NaN compared as 'both NaN'",
               "dump files are written under /verif/.scratch and removed afterwards"]
REQUIRED_COUNTERS = ["json_roundtrips_compared", "reencode_compared", "dump_runs", "dump_lines_compared"]
SHARD_TIMEOUT = {"quick": 300, "thorough": 3000}


def shards(tier, seed):
    n = 12 if tier == "quick" else 48
    out = [{"name": f"defs-{i}of{n}", "kind": "json", "i": i, "n": n, "tier": tier, "seed": seed} for i in range(n)]
    m = 4 if tier == "quick" else 16
    out += [{"name": f"dump-{i}", "kind": "dump", "i": i, "tier": tier, "seed": seed} for i in range(m)]
    # the dump of a gateway client over its whole life: several connections, losses noticed by the reader and by a failing send
    out += [{"name": f"client-dump-{k}", "kind": "client_dump", "client": k, "tier": tier, "seed": seed} for k in ("ebyte", "yd", "waveshare", "actisense")]
    return out


def render(v):
    if isinstance(v, (bytes, bytearray)):
        return bytes(v).hex()
    if isinstance(v, (date, time)):
        return v.isoformat()
    return v


def same(a, b):
    if isinstance(a, float) and isinstance(b, float) and math.isnan(a) and math.isnan(b):
        return True
    if isinstance(a, (int, float)) and isinstance(b, (int, float)) and not isinstance(a, bool) and not isinstance(b, bool):
        return a == b
    return type(a) is type(b) and a == b


def check_message(m, enc, acc, w, dbx=None, d=None):
    before = project.msg_proj(m)
    try:
        text = m.to_json()
    except Exception as e:  # noqa: BLE001
        acc.violation("to-json-raised", f"{w['definition']}: to_json raised {type(e).__name__}: {e}", w)
        return
    acc.count("to_json_purity_checked")
    if project.msg_proj(m) != before:
        a, b = before, project.msg_proj(m)
        what = next((n for n, x, y in zip(("PGN", "id", "description", "ttl", "source", "destination", "priority", "fields", "identity", "hash"), a, b) if x != y), "?")
        acc.violation("to-json-changes-the-message", f"{w['definition']}: the message differs after to_json() in: {what}", w)
    try:
        parsed = json.loads(text)
    except Exception as e:  # noqa: BLE001
        acc.violation("to-json-not-valid-json", f"{w['definition']}: {type(e).__name__}: {e}", dict(w, text=text[:300]))
        return
    if not isinstance(parsed, dict) or "\n" in text:
        acc.violation("to-json-not-one-object-line", f"{w['definition']}: JSON text is not a single-line object", dict(w, text=text[:300]))
    try:
        m2 = NMEA2000Message.from_json(text)
    except Exception as e:  # noqa: BLE001
        acc.violation("from-json-raised", f"{w['definition']}: from_json raised {type(e).__name__}: {e}", dict(w, text=text[:300]))
        return
    acc.count("json_roundtrips_compared")
    if (m2.PGN, m2.id, m2.source, m2.destination, m2.priority) != (m.PGN, m.id, m.source, m.destination, m.priority):
        acc.violation("json-header-differs", f"{w['definition']}: header {(m2.PGN, m2.id, m2.source, m2.destination, m2.priority)}", w)
    if [f.id for f in m2.fields] != [f.id for f in m.fields]:
        acc.violation("json-fields-lost-or-reordered", f"{w['definition']}: field ids {[f.id for f in m2.fields]}", w)
        return
    for f1, f2 in zip(m.fields, m2.fields):
        for attr in ("value", "raw_value"):
            a, b = render(getattr(f1, attr)), getattr(f2, attr)
            if not same(a, b):
                key = "json-field-differs"
                if isinstance(a, float) and (math.isnan(a) or math.isinf(a)) and b is None:
                    key = "non-finite-float-becomes-null"
                acc.violation(key, f"{w['definition']}.{f1.id}.{attr}: {a!r} became {b!r}", dict(w, field=f1.id, attr=attr))
    # re-encodable: same bytes as the original
    try:
        e1 = enc.encode_actisense(m)
    except Exception:  # noqa: BLE001
        acc.count("original_not_encodable")
        return
    try:
        e2 = enc.encode_actisense(m2)
    except Exception as e:  # noqa: BLE001
        key = "parsed-message-not-encodable"
        if any(isinstance(f.value, float) and not math.isfinite(f.value) for f in m.fields):
            key = "non-finite-float-becomes-null"
        acc.violation(key, f"{w['definition']}: original encodes, parsed message raises {type(e).__name__}: {e}", w)
        return
    # JSON written by hand (or by something that only kept what matters): nothing but PGN, id, addressing and, per
    # field, id / value / raw_value - it parses, and encodes to the same bytes
    if acc.evaluations % 3 == 0:
        slim = {k_: parsed.get(k_) for k_ in ("PGN", "id", "source", "destination", "priority")}
        slim["fields"] = [{"id": f_.get("id"), "value": f_.get("value"), "raw_value": f_.get("raw_value")} for f_ in parsed.get("fields", [])]
        acc.count("hand_written_json_compared")
        try:
            e3 = enc.encode_actisense(NMEA2000Message.from_json(json.dumps(slim)))
        except Exception as e:  # noqa: BLE001
            e3 = f"{type(e).__name__}: {e}"
        if e3 != e1:
            acc.violation("hand-written-json-not-equivalent", f"{w['definition']}: JSON reduced to PGN, id, addressing and field id/value/raw_value gives {e3[:90]!r} instead of {e1[:90]!r}", w)
    acc.count("reencode_compared")
    if e1 != e2:
        key = "parsed-message-encodes-differently"
        if any(isinstance(f.value, float) and not math.isfinite(f.value) for f in m.fields):
            key = "non-finite-float-becomes-null"
        acc.violation(key, f"{w['definition']}: {e1} vs {e2}", w)


ROUTES = ("plain", "actisense", "usb_bytearray", "plain", "usb_bytes", "ebyte_bytearray", "yd", "plain")


def decode_via(dec, route, prio, d, pb: bytes, k, src=9, dst=255):
    """The same payload through one of the decoder's entry points, handing over the argument types the clients hand
    over (the Waveshare client passes a bytearray slice of its buffer)."""
    pdu1 = ((d.pgn >> 8) & 0xFF) < 240
    if route == "plain" or (d.type not in ("Single", "Fast")) or (d.type == "Single" and len(pb) > 8) or len(pb) > 223:
        return dec.decode_basic_string(wire.plain_line(prio, d.pgn, src, dst if pdu1 else 255, pb), already_combined=True)
    if route == "actisense":
        return dec.decode_actisense_string(wire.actisense_line(prio, d.pgn, src, dst if pdu1 else 255, pb))
    ident = wire.can_id(prio, d.pgn, src, dst)
    frames = [pb] if d.type == "Single" else wire.fast_frames(pb, k % 8, 0xFF)
    r = None
    for f in frames:
        if route == "usb_bytes":
            r = dec.decode_usb(wire.usb_frame(ident, f))
        elif route == "usb_bytearray":
            r = dec.decode_usb(bytearray(wire.usb_frame(ident, f)))
        elif route == "ebyte_bytearray":
            r = dec.decode_tcp(bytearray(wire.ebyte_frame(ident, f)))
        else:
            r = dec.decode_yacht_devices_string(wire.yd_line(ident, f).strip())
    return r


def run_json(spec, acc):
    dbx = refdb.db()
    rng = gen.rng_for(spec["seed"], ID, spec["name"])
    quick = spec["tier"] == "quick"
    defs = gen.shard_by_pgn([d for d in dbx.defs if d.supported], spec["i"], spec["n"])
    dec_plain = NMEA2000Decoder()
    dec_ident = NMEA2000Decoder(build_network_map=True)
    dec_ident.decode_basic_string(wire.plain_line(6, 60928, 9, 255, hist.claim_name(1234, 1851).to_bytes(8, "little")), already_combined=True)
    dec_units = NMEA2000Decoder(preferred_units={PhysicalQuantities.TEMPERATURE: "f", PhysicalQuantities.PRESSURE: "psi", PhysicalQuantities.ANGLE: "deg", PhysicalQuantities.SPEED: "kts"})
    enc = NMEA2000Encoder()
    for d in defs:
        if d.fixed_layout:
            cases = [(l, p, nb, None) for l, p, nb in fixed_cases(dbx, d, rng, 1 if quick else 10, 3 if quick else 400, 5 if quick else 1500)]
        else:
            cases = list(variable_cases(dbx, d, rng, 12 if quick else 2000))
        for k, (label, payload, nb, _) in enumerate(cases):
            dec = dec_ident if k % 3 == 0 else (dec_units if k % 5 == 4 else dec_plain)
            route = ROUTES[(k + d.index) % len(ROUTES)]
            try:
                # addressing over its whole range, the zeros included (source 0, destination 0, priority 0); the decoder
                # that carries identities knows source 9 only
                src_ = 9 if dec is dec_ident else rng.choice([0, 0, 1, 9, 128, 253])
                m = decode_via(dec, route, rng.choice([0, 0, 3, 7]), d, payload.to_bytes(nb, "little"), k, src=src_, dst=rng.choice([0, 0, 17, 254, 255]))
            except Exception:  # noqa: BLE001
                acc.case(None)
                continue
            acc.cover("input_routes", route)
            if m is None:
                acc.case(None)
                continue
            acc.case((d.id, payload, k % 3 == 0))
            w = {"definition": m.id, "payload_hex": payload.to_bytes(nb, "little").hex(), "label": label, "with_identity": k % 3 == 0}
            check_message(m, enc, acc, w)
            # once more on the same object: by now it has been encoded (by-id lookups done); what to_json() emits
            # must still parse back into an equivalent, re-encodable message
            check_message(m, enc, acc, dict(w, label=str(label) + " (second pass, after encode)"))
            for f in m.fields:
                acc.cover("value_types", type(f.value).__name__)
        if len(acc.samples) < 3:
            acc.sample({"definition": d.id, "cases": len(cases)})


def run_dump(spec, acc):
    dbx = refdb.db()
    rng = gen.rng_for(spec["seed"], ID, spec["name"])
    quick = spec["tier"] == "quick"
    base = os.path.join(runner.SCRATCH, f"c15-dump-{os.getpid()}")
    os.makedirs(base, exist_ok=True)
    try:
        for c in range(40 if quick else 400):
            pool = hist.Pool(dbx, rng, n_single=6, n_fast=4)
            if c % 3 == 1:
                # make sure fields with a convertible quantity travel
                conv = [d for d in dbx.defs if d.supported and d.fixed_layout and d.type == "Single" and (d.length or 9) <= 8 and not d.fallback
                        and not any(f.offset is not None for f in d.fields) and any(f.pq in ("TEMPERATURE", "PRESSURE", "ANGLE", "SPEED") for f in d.fields)]
                pool.singles += [d for d in rng.sample(conv, min(3, len(conv))) if d not in pool.singles]
            defs = pool.singles + pool.fasts
            style = ["empty", "numbers", "ids", "mixed", "ids-other-case", "numbers"][c % 6]
            chosen = rng.sample(defs, min(len(defs), rng.randint(1, 3)))
            # often name one definition of a PGN number that has siblings in the traffic (filter by id must not
            # be decided per PGN number)
            sibs = [d for d in defs if sum(1 for x in defs if x.pgn == d.pgn) > 1]
            if sibs and c % 2 == 0:
                chosen[0] = rng.choice(sibs)
            nums, ids, entries = set(), set(), []
            for j, d in enumerate(chosen):
                if style == "empty":
                    break
                if style == "numbers" or (style == "mixed" and j % 2):
                    entries.append(d.pgn)
                    nums.add(d.pgn)
                else:
                    entries.append(d.id if style != "ids-other-case" else rng.choice([d.id.upper(), d.id.lower()]))
                    ids.add(d.id.lower())
            if style != "empty" and c % 4 == 1:
                entries.append(126998)          # the PGN with the non-ASCII strings (added to the history below)
                nums.add(126998)
            path = os.path.join(base, f"sub{c % 3}", f"dump{c}.jsonl") if c % 2 else os.path.join(base, f"dump{c}.jsonl")
            # a device re-announces itself: same unique number and manufacturer, other instance / function (an installer
            # re-configured it), or another device altogether takes the address. The messages returned (and dumped) before
            # that are what they were.
            claims = {}
            for s in (1, 2):
                u_ = rng.randrange(1 << 20)
                claims[s] = [hist.claim_name(u_, 1851), hist.claim_name(u_, 1851, inst_lo=rng.randrange(1, 8), inst_hi=rng.randrange(32)),
                             hist.claim_name(u_, 1851, function=rng.choice([140, 150, 160]), sys_inst=rng.randrange(16)),
                             hist.claim_name(rng.randrange(1 << 20), rng.choice([1851, 1855, 137])), hist.pick_name(rng)]
            events = hist.build_history(pool, rng, [1, 2], 60 if quick else 200, claims, p_claim=0.2 if c % 2 else 0.12)
            acc.count("dump_histories_with_reclaims_of_one_device")
            # text that is not ASCII travels too (PGN 126998, three variable-length strings): the dump is the JSON text
            # of the message, whatever the characters
            for k_ in range(2):
                texts_ = [gen.rand_text(rng, rng.randint(1, 8), unicode_=True) for _ in range(3)]
                pb_ = b"".join(gen.lau_bytes(t_, ascii_=(j_ == 1)) for j_, t_ in enumerate(texts_))
                fr_ = wire.fast_frames(pb_, k_ + 1, 0xFF)
                events += [hist.Ev(6, 126998, 3, 255, f_, "fast", 10_000 + k_, last=(i_ == len(fr_) - 1), definition="configurationInformation") for i_, f_ in enumerate(fr_)]
            # other settings of the same decoder: the dump line is the JSON of the message *as returned*
            extra = {}
            if c % 3 == 1:
                extra["preferred_units"] = {PhysicalQuantities.TEMPERATURE: rng.choice(["C", "f"]), PhysicalQuantities.PRESSURE: rng.choice(["bar", "PSI"]),
                                            PhysicalQuantities.ANGLE: "deg", PhysicalQuantities.SPEED: "kts"}
            if c % 4 >= 2:
                extra["build_network_map"] = True
            if c % 5 == 4:
                extra["exclude_pgns"] = [rng.choice(defs).pgn]
            if c % 5 == 2 and style != "empty":
                # an include filter that names the dumped definitions in the OTHER spelling (by id where the dump filter has the
                # number and the other way round), and a few more
                inc_ = []
                for j, d in enumerate(chosen):
                    inc_.append(d.id if (style == "numbers" or (style == "mixed" and j % 2)) else d.pgn)
                inc_ += [x.pgn if k_ % 2 else x.id for k_, x in enumerate(rng.sample(defs, min(3, len(defs))))]
                extra["include_pgns"] = inc_
            acc.cover("dump_co_settings", "+".join(sorted(extra)) or "none")
            dec = NMEA2000Decoder(dump_to_file=path, dump_pgns=entries, **extra)
            expected = []
            returned = []
            kept = skipped = 0
            for ev in events:
                # every second session through all input formats, with the time stamps those carry: not increasing, as in a
                # replayed or merged log, a time-of-day stamp past midnight, an uptime counter that wrapped
                kind, r = hist.safe_feed_any(dec, ev, rng) if c % 2 else hist.safe_feed(dec, ev)
                if kind == "ok" and r is not None:
                    returned.append((r, project.msg_proj(r), r.to_json()))
                    if not entries or r.PGN in nums or r.id.lower() in ids:
                        expected.append(r.to_json())
                        kept += 1
                    else:
                        skipped += 1
            if c % 4 == 3:
                # the application drops the decoder without closing it (the last reference goes away): what it dumped is in the
                # file all the same once the object is gone
                acc.count("dump_sessions_ended_by_dropping_the_decoder")
                del dec
            else:
                dec.close()
            # the returned objects are the caller's: dumping them must not have changed them
            for r, proj, js in returned:
                if project.msg_proj(r) != proj or r.to_json() != js:
                    acc.violation("returned-message-changed-after-return", f"filter {entries} settings {sorted(extra)}: a returned {r.id} message changed after it was returned "
                                  "(its JSON is no longer the line that was dumped for it)", {"filter": repr(entries), "json_when_returned": js[:400], "json_now": r.to_json()[:400]})
                    break
            acc.count("returned_messages_re_read_at_the_end", len(returned))
            if extra.get("build_network_map") and any(proj[9] is None for _, proj, _j in returned):
                acc.violation("dumped-message-returned-without-hash", f"filter {entries}: with network mapping and dumping on, a returned message has no hash", {"filter": repr(entries)})
            if "preferred_units" in extra:
                acc.count("dump_runs_with_unit_preferences")
                if any(f.unit_of_measurement in ("C", "F", "Bar", "PSI", "deg", "kts", "c", "f", "bar", "psi") for r, _, _j in returned for f in r.fields):
                    acc.count("dump_runs_with_converted_fields")
            acc.count("dump_runs")
            acc.cover("dump_filter_styles", style)
            try:
                with open(path) as fh:
                    lines = fh.read().split("\n")
            except OSError as e:
                acc.violation("dump-file-missing", f"{path}: {e}", {"filter": repr(entries)})
                continue
            if lines and lines[-1] == "":
                lines.pop()
            acc.count("dump_lines_compared", len(lines))
            acc.case((repr(entries), tuple(tuple(e.brief()) for e in events)) if (kept and (skipped or not entries)) else None)
            if lines != expected:
                if len(lines) < len(expected):
                    why = "dump-misses-matching-messages" + (":filter-by-id" if ids and not nums else "")
                elif len(lines) > len(expected):
                    why = "dump-contains-unmatched-messages"
                else:
                    why = "dump-line-content-differs"
                acc.violation(why, f"filter {entries}: dump has {len(lines)} lines, expected {len(expected)}",
                              {"filter": repr(entries), "style": style, "first_expected": (expected or [""])[0][:200], "first_line": (lines or [""])[0][:200]})
            if c % 5 == 0:
                acc.sample({"filter": repr(entries), "returned_kept": kept, "returned_skipped": skipped, "lines": len(lines)})
        if spec["i"] == 0:
            # one long session: thousands of dumped messages through one decoder (whatever buffering the dump uses, the file
            # is complete and line-exact once the decoder is closed)
            pool = hist.Pool(dbx, rng, n_single=8, n_fast=0)
            path = os.path.join(base, "long.jsonl")
            dec = NMEA2000Decoder(dump_to_file=path)
            expected = []
            n_long = 9000 if quick else 70000
            # at least twice any count the code under test mentions literally (a batch size, a cache size)
            n_long = max(n_long, min(45000, 2 * max(gen.harvested_in(1000, 20000) or [0]) + 10))
            payloads = [(d_, pool.payload(d_)) for d_ in pool.singles]
            payloads = [(d_, p_) for d_, p_ in payloads if p_ is not None]
            for k_ in range(n_long):
                d_, p_ = payloads[k_ % len(payloads)]
                try:
                    r = dec.decode_tcp(wire.ebyte_frame(wire.can_id(k_ % 8, d_.pgn, k_ % 250, 255), p_))
                except Exception:  # noqa: BLE001
                    r = None
                if r is not None:
                    expected.append(r.to_json())
            dec.close()
            with open(path) as fh:
                lines = fh.read().split("\n")
            if lines and lines[-1] == "":
                lines.pop()
            acc.count("dump_runs")
            acc.count("long_dump_lines_compared", len(lines))
            acc.case(("long-dump", n_long))
            if lines != expected:
                bad = next((i for i, (a_, b_) in enumerate(zip(lines, expected)) if a_ != b_), min(len(lines), len(expected)))
                acc.violation("dump-line-content-differs:long-session", f"a session of {len(expected)} dumped messages: the file has {len(lines)} lines, first difference at line {bad + 1}",
                              {"expected_lines": len(expected), "file_lines": len(lines), "first_difference_at_line": bad + 1})
    finally:
        shutil.rmtree(base, ignore_errors=True)


def run_client_dump(spec, acc):
    """A client that dumps: what its dump file holds when it is closed is the JSON of every message it delivered - on the first
    connection and on the ones it opened after a loss (seen by the reader, or by a send() whose write or flush failed)."""
    import asyncio
    from .. import simgw
    from .c12 import packetise
    from .c13 import make_send_message
    dbx = refdb.db()
    rng = gen.rng_for(spec["seed"], ID, spec["name"])
    kind = spec["client"]
    quick = spec["tier"] == "quick"
    base = os.path.join(runner.SCRATCH, f"c15-clientdump-{os.getpid()}")
    os.makedirs(base, exist_ok=True)
    try:
        for rep in range(9 if quick else 90):
            pool = hist.Pool(dbx, rng, n_single=6, n_fast=0)
            path = os.path.join(base, f"d{rep}.jsonl")
            losses = [("reader", "write", "flush")[(rep + k_) % 3] for k_ in range(1 + rep % 2)]
            if kind == "actisense":
                losses = ["reader"] * len(losses)          # (this client cannot send)
            batches = []
            for _ in range(len(losses) + 1):
                b_ = []
                for _ in range(3):
                    d = rng.choice(pool.singles)
                    pb = pool.payload(d)
                    if pb is None:
                        continue
                    ev = hist.Ev(rng.randrange(8), d.pgn, rng.randrange(1, 250), 255, pb, "single", definition=d.id)
                    b_.append((wire.actisense_line(ev.prio, ev.pgn, ev.src, 255, ev.data) + "\r\n").encode() if kind == "actisense" else packetise(kind, ev, rng))
                batches.append(b_)

            async def scenario(sim, batches=batches, losses=losses):
                sim.spawn("connect")
                await asyncio.sleep(0.05)
                for n_, b_ in enumerate(batches):
                    if len(sim.conns) <= n_:
                        return
                    conn = sim.conns[n_]
                    conn.feed(b"".join(b_))
                    await asyncio.sleep(0.5)
                    if n_ == len(batches) - 1:
                        break
                    how = losses[n_]
                    if how == "reader":
                        conn.reset(simgw.link_loss(kind))
                    else:
                        if how == "flush":
                            conn.drain_fails = 0
                        else:
                            conn.fail_write_after = 0
                            conn.fail_exc = simgw.link_loss(kind, write=True)
                        sim.spawn("send", make_send_message(kind))
                    for _ in range(6000):
                        if len(sim.conns) > n_ + 1 and sim.client.state.name == "CONNECTED":
                            break
                        await asyncio.sleep(0.01)
                    await asyncio.sleep(0.1)
                await asyncio.sleep(0.5)
                await sim.close_guarded()
            sim, stats = simgw.run_session(kind, scenario, client_kwargs={"dump_to_file": path})
            acc.count("client_dump_sessions")
            if stats["error"] or sim is None:
                acc.inconclusive_because(f"simulator: {stats['error']}")
                continue
            if len(sim.conns) < len(batches):
                acc.count("client_dump_sessions_without_reconnection")
                continue
            try:
                sim.client.decoder.close()
            except Exception:  # noqa: BLE001
                pass
            expected = [m.to_json() for m in sim.received]
            try:
                with open(path) as fh:
                    lines = fh.read().split("\n")
            except OSError:
                lines = []
            if lines and lines[-1] == "":
                lines.pop()
            acc.count("dump_runs")
            acc.count("dump_lines_compared", len(lines))
            acc.case((kind, tuple(losses), tuple(tuple(b_) for b_ in batches)))
            acc.cover("client_dump_loss_kinds", "+".join(losses))
            if lines != expected:
                acc.violation("dump-misses-matching-messages" if len(lines) < len(expected) else "dump-line-content-differs",
                              f"{kind} client with a dump file, {len(sim.conns)} connections (losses: {losses}): delivered {len(expected)} messages, the dump has {len(lines)} lines",
                              {"client": kind, "losses": losses, "delivered": len(expected), "dump_lines": len(lines)})
    finally:
        shutil.rmtree(base, ignore_errors=True)


def run_shard(spec, acc):
    {"json": run_json, "dump": run_dump, "client_dump": run_client_dump}[spec["kind"]](spec, acc)


def replay(w, acc):
    if "payload_hex" in w:
        dbx = refdb.db()
        d = dbx.by_id.get(w["definition"])
        b = bytes.fromhex(w["payload_hex"])
        m = NMEA2000Decoder().decode_basic_string(wire.plain_line(3, d.pgn, 9, 255, b), already_combined=True)
        check_message(m, NMEA2000Encoder(), acc, w)
