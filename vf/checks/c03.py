"""C03 - fast-packet segmentation and reassembly are inverse for every payload length."""
from __future__ import annotations

from ..lib import (NMEA2000Decoder, NMEA2000Encoder, NMEA2000Message, NMEA2000Field, encoder_mod, decoder_mod)
from .. import refdb, gen, wire, project

ID = "C03"
LEVEL = "exploration"
RULE = ("cases = messages pushed through the library's own segmentation and wire formatting: (i) arbitrary payloads of "
        "every length 0..223 at every sequence-counter state 0..7 in 3 frame formats via a stub codec registered under "
        "the generated-codec naming convention (the real _encode/segmentation/format code runs), frames parsed by the "
        "harness and fed one by one to a real decoder; (ii) every encodable fast-packet definition through the public "
        "path; non-trivial = frames parsed and every per-frame decoder return value compared with ground truth; "
        "distinct = distinct (format, length, counter state, payload)")
ASSUMPTIONS = ["stub codec seam: the encoder/decoder look per-PGN functions up by name in their module namespace; when the seam is absent only the public path runs and exhaustive is false",
               "payloads end in a non-zero byte so that their length is observable through an integer-valued field"]
REQUIRED_COUNTERS = ["frames_parsed", "decoder_returns_checked", "messages_reassembled_equal"]
SHARD_TIMEOUT = {"quick": 200, "thorough": 1500}

STUB_PGN = 130999          # PF=0xFF (PDU2); not in the database
HEAD_PROBE = bytes([0xFE, 0x07, 1, 2, 3, 4, 5, 6, 9])
FORMATS = ("ebyte", "usb", "yd")


def shards(tier, seed):
    out = []
    reps = 2 if tier == "quick" else 100
    for fmt in FORMATS:
        for rot in range(8):
            out.append({"name": f"stub-{fmt}-rot{rot}", "kind": "stub", "fmt": fmt, "rot": rot, "reps": reps, "seed": seed})
    for i in range(4):
        out.append({"name": f"public-{i}", "kind": "public", "i": i, "n": 4, "seed": seed, "tier": tier})
    out.append({"name": "fallback-126720", "kind": "fallback", "seed": seed, "tier": tier})
    for fmt in FORMATS:
        out.append({"name": f"multistream-{fmt}", "kind": "multistream", "fmt": fmt, "seed": seed, "tier": tier})
    return out


def encode_frames(enc, fmt, msg):
    """-> list of (identifier, data bytes, raw packet) parsed by the harness from the library's packets."""
    if fmt == "ebyte":
        pk = enc.encode_ebyte(msg)
        return [wire.parse_ebyte(p) + (p,) for p in pk]
    if fmt == "usb":
        pk = enc.encode_usb(msg)
        return [wire.parse_usb(p) + (p,) for p in pk]
    pk = enc.encode_yacht_devices(msg)
    return [wire.parse_yd_tx(p) + (p,) for p in pk]


_TIME = {"rng": __import__("random").Random(20240607), "box": None}


def _move_time():
    """Time is no part of the statement: between any two frames the decoder's clock (and the time of day a text line
    carries) may stand still, move on by milliseconds or hours, or step backwards (NTP / DST corrections, replayed logs)."""
    if _TIME["box"] is None:
        from ..lib import decoder_clock_box
        cm = decoder_clock_box()
        _TIME["box"] = cm.__enter__()            # stays in force for the life of the shard process
        _TIME["cm"] = cm
    r = _TIME["rng"]
    _TIME["box"]["offset"] += r.choice([0.0, 0.0, 0.0, 0.001, 0.5, 0.8, 2.0, 61.0, 3600.0, -0.5, -1.0, -30.0, -3600.0, -86400.0])
    return "%02d:%02d:%02d.%03d" % (r.randrange(24), r.randrange(60), r.randrange(60), r.randrange(1000))


def feed(dec, fmt, ident, data, raw):
    """Give one frame to the decoder through the matching public entry point."""
    stamp = _move_time()
    if fmt == "ebyte":
        return dec.decode_tcp(wire.ebyte_frame(ident, data))       # 13-byte frame as a gateway sends it
    if fmt == "usb":
        return dec.decode_usb(raw)
    return dec.decode_yacht_devices_string(stamp + " R " + raw.decode().strip())


def expected_frames(n: int) -> int:
    return 1 if n <= 6 else 1 + (n - 6 + 6) // 7


def check_structure(frames, payload, prev_seq, acc, ctx):
    """Structural clauses of the statement on one encoded message. Returns the sequence counter."""
    datas = [d for _, d, _ in frames]
    info = wire.parse_fast_frames(datas)
    acc.count("frames_parsed", len(frames))
    probs = list(info.get("problems", []))
    if "announced" in info:
        if info["announced"] != len(payload):
            probs.append(f"announced length {info['announced']} != {len(payload)}")
        if len(frames) != expected_frames(len(payload)):
            probs.append(f"{len(frames)} frames for {len(payload)} bytes (expected {expected_frames(len(payload))})")
        carried = info["payload"]
        if carried[:len(payload)] != payload:
            probs.append("payload bytes differ from the codec's output")
        if any(len(d) < 2 for d in datas[1:]):
            probs.append("a frame after the first carries no payload byte")
        if prev_seq is not None and info.get("seq") == prev_seq:
            probs.append(f"sequence counter {prev_seq} repeated in consecutive messages")
    for p in probs:
        key = "frame-structure:" + p.split(" ")[0]
        acc.violation("fast-packet-frame-structure", f"{ctx}: {p}", {"ctx": ctx, "payload_hex": payload.hex(),
                                                                      "frames": [d.hex() for d in datas]})
    return info.get("seq")


def install_stub():
    """Register stub is_fast/encode/decode functions for STUB_PGN. Returns (ok, cleanup)."""
    names = {f"is_fast_pgn_{STUB_PGN}": lambda: True}
    box = {"payload": b""}

    def stub_encode(m):
        return box["payload"]

    def stub_decode(data_int):
        return NMEA2000Message(PGN=STUB_PGN, id="verifStub", description="stub",
                               fields=[NMEA2000Field("data", "Data", None, None, data_int, data_int)])
    names[f"encode_pgn_{STUB_PGN}"] = stub_encode
    names[f"decode_pgn_{STUB_PGN}"] = stub_decode
    for mod in (encoder_mod, decoder_mod):
        for n, f in names.items():
            setattr(mod, n, f)

    def cleanup():
        for mod in (encoder_mod, decoder_mod):
            for n in names:
                if hasattr(mod, n):
                    delattr(mod, n)
    return box, cleanup


def seam_works(box) -> bool:
    """Does the library pick up codecs registered under the generated naming convention? (It may legitimately
    not - e.g. after a refactor to a registry built at import time; then only the public path is exercised.)"""
    box["payload"] = b"\x01\x02\x03\x04\x05\x06\x07\x08\x09"
    try:
        fr = NMEA2000Encoder().encode_ebyte(NMEA2000Message(PGN=STUB_PGN, id="verifStub", priority=1, source=1, destination=255))
        dec = NMEA2000Decoder()
        r = None
        for p in fr:
            r = dec.decode_tcp(p)
        return len(fr) == 2 and r is not None and r.id == "verifStub"
    except Exception:  # noqa: BLE001
        return False


def run_stub(spec, acc):
    rng = gen.rng_for(spec["seed"], ID, spec["name"])
    fmt, rot = spec["fmt"], spec["rot"]
    box, cleanup = install_stub()
    if not seam_works(box):
        cleanup()
        acc.note("stub codec seam unavailable: arbitrary-length payloads cannot be pushed through the library's segmentation; public path only")
        acc.set_exhaustive("lengths 0..223 x counter states 0..7 x 3 formats", False)
        return
    try:
        for rep in range(spec["reps"]):
            enc = NMEA2000Encoder()
            dec = NMEA2000Decoder()
            msg = NMEA2000Message(PGN=STUB_PGN, id="verifStub", priority=rng.randrange(8), source=rng.randrange(253), destination=255)
            prev_seq = None
            lengths = list(range(224))
            if rep % 2 == 1:
                rng.shuffle(lengths)
            # warm-up messages rotate which counter state each length meets
            schedule = [None] * rot + lengths
            for idx, n in enumerate(schedule):
                if n is None:
                    payload = bytes([7, 7, 7])
                else:
                    payload = bytes(rng.randrange(256) for _ in range(max(n - 1, 0))) + (bytes([rng.randrange(1, 256)]) if n else b"")
                    if rep == 0 and n > 2:
                        payload = bytes([0]) + payload[1:]          # leading zero byte must survive too
                    if idx % 4 == 1:
                        payload = b"\xff" * len(payload)           # data indistinguishable from padding (a last frame that is 0xFF throughout)
                    elif idx % 4 == 3 and n > 7:
                        payload = payload[:-7] + b"\xff" * 6 + payload[-1:]
                box["payload"] = payload
                try:
                    frames = encode_frames(enc, fmt, msg)
                except Exception as e:  # noqa: BLE001
                    acc.violation("encode-raised", f"{fmt} len {len(payload)}: {type(e).__name__}: {e}", {"fmt": fmt, "len": len(payload)})
                    continue
                ctx = f"stub {fmt} len={len(payload)} msg#{idx}"
                seq = check_structure(frames, payload, prev_seq, acc, ctx)
                counter_state = idx % 8
                acc.case((fmt, len(payload), seq, payload))
                acc.cover("lengths", len(payload))
                acc.cover("sequence_counters", seq)
                acc.cover("formats", fmt)
                prev_seq = seq
                # reassembly: nothing until the last frame, then exactly the payload
                for k, (ident, data, raw) in enumerate(frames):
                    try:
                        r = feed(dec, fmt, ident, data, raw)
                    except Exception as e:  # noqa: BLE001
                        acc.violation("decode-raised-on-own-frames", f"{ctx} frame {k}: {type(e).__name__}: {e}",
                                      {"ctx": ctx, "frames": [d.hex() for _, d, _ in frames]})
                        break
                    acc.count("decoder_returns_checked")
                    last = k == len(frames) - 1
                    if not last and r is not None:
                        acc.violation("message-before-last-frame", f"{ctx}: returned at frame {k}/{len(frames)}",
                                      {"ctx": ctx, "frames": [d.hex() for _, d, _ in frames]})
                    if last:
                        if r is None:
                            acc.violation("no-message-at-last-frame", f"{ctx}: nothing returned at the last frame",
                                          {"ctx": ctx, "frames": [d.hex() for _, d, _ in frames], "payload_hex": payload.hex()})
                        else:
                            got = r.fields[0].value
                            if got != int.from_bytes(payload, "little"):
                                acc.violation("reassembled-payload-differs", f"{ctx}: payload {payload.hex()} reassembled as {got:x}",
                                              {"ctx": ctx, "frames": [d.hex() for _, d, _ in frames], "payload_hex": payload.hex()})
                            else:
                                acc.count("messages_reassembled_equal")
                if idx % 53 == 0:
                    acc.sample({"fmt": fmt, "len": len(payload), "seq": seq, "frames": [d.hex() for _, d, _ in frames][:4]}, cap=3)
        acc.set_exhaustive("lengths 0..223 x counter states 0..7 x 3 formats", True)
    finally:
        cleanup()


def run_public(spec, acc):
    """Every encodable fast-packet definition through encode_* / decode_* only."""
    dbx = refdb.db()
    rng = gen.rng_for(spec["seed"], ID, spec["name"])
    defs = [d for d in dbx.defs if d.encodable and d.type == "Fast"]
    defs = [d for k, d in enumerate(defs) if k % spec["n"] == spec["i"]]
    n_payloads = 15 if spec["tier"] == "quick" else 1000
    src_dec = NMEA2000Decoder()
    # First contact of this process with the library: traffic of PGN numbers that differ from the shard's fast-packet PGNs
    # only in the upper bits (p and p +/- 65536 / 131072, e.g. single-frame 65280 and fast 130816; the identifier carries
    # 18 PGN bits). Whatever the library learns from them must not decide how the fast-packet PGNs are treated.
    warm = NMEA2000Decoder()
    warm_enc = NMEA2000Encoder()
    for d in defs:
        for alias in (d.pgn ^ 0x10000, d.pgn ^ 0x20000, d.pgn ^ 0x30000):
            for a_ in dbx.by_pgn.get(alias, [])[:1]:
                acc.count("alias_pgns_seen_first")
                try:
                    warm.decode_tcp(wire.ebyte_frame(wire.can_id(3, alias, 9, 255), bytes(range(1, 9))))
                except Exception:  # noqa: BLE001
                    pass
                try:
                    warm_enc.encode_ebyte(NMEA2000Message(PGN=alias, id=a_.id, priority=3, source=9, destination=255, fields=[]))
                except Exception:  # noqa: BLE001
                    pass
    for d in defs:
        nb = d.length if d.length is not None else (d.total_bits() + 7) // 8
        for fmt in FORMATS:
            enc = NMEA2000Encoder()
            dec = NMEA2000Decoder()
            enc2, dec2 = NMEA2000Encoder(), NMEA2000Decoder()
            prev_seq = None
            for c in range(n_payloads):
                payload = dbx.pack(d, gen.base_raws(d, rng, dbx))
                if dbx.select(d.pgn, payload) is not d:
                    continue
                line = wire.plain_line(3, d.pgn, 7, 255, payload.to_bytes(nb, "little"))
                try:
                    m = src_dec.decode_basic_string(line, already_combined=True)
                    ref_payload = bytes.fromhex(enc.encode_actisense(m).split()[2]) if m is not None else None
                except Exception:  # noqa: BLE001
                    acc.count("source_message_not_codable")
                    continue
                if m is None:
                    continue
                m.source, m.destination, m.priority = 7, 255, 3
                try:
                    # expected result = what the codec's payload decodes to when handed over pre-assembled
                    # (keeps this check about segmentation/reassembly; codec value fidelity is C02/C09)
                    expect = src_dec.decode_basic_string(wire.plain_line(3, d.pgn, 7, 255, ref_payload), already_combined=True)
                except Exception:  # noqa: BLE001
                    acc.count("source_message_not_codable")
                    continue
                try:
                    frames = encode_frames(enc, fmt, m)
                except Exception as e:  # noqa: BLE001
                    acc.count("source_message_not_codable")
                    continue
                ctx = f"{d.id} {fmt}"
                seq = check_structure(frames, ref_payload, prev_seq, acc, ctx)
                prev_seq = seq
                acc.case((fmt, d.id, ref_payload))
                acc.cover("public_definitions", d.id)
                # a neighbour: another encoder/decoder pair in the same process carrying another message of the same
                # stream at the same time, frame by frame in lockstep. Each decoder must reassemble its own message.
                frames2, expect2, r2 = [], None, None
                try:
                    pay2 = dbx.pack(d, gen.base_raws(d, rng, dbx))
                    if dbx.select(d.pgn, pay2) is d:
                        m2 = src_dec.decode_basic_string(wire.plain_line(3, d.pgn, 7, 255, pay2.to_bytes(nb, "little")), already_combined=True)
                        if m2 is not None:
                            m2.source, m2.destination, m2.priority = 7, 255, 3
                            ref2 = bytes.fromhex(enc2.encode_actisense(m2).split()[2])
                            expect2 = src_dec.decode_basic_string(wire.plain_line(3, d.pgn, 7, 255, ref2), already_combined=True)
                            frames2 = encode_frames(enc2, fmt, m2)
                except Exception:  # noqa: BLE001
                    frames2, expect2 = [], None
                # a decoder whose id filter drops a SIBLING definition of this PGN: that sibling's message travels first on the same
                # stream (with the same leading bytes where the two differ late), is dropped, and this message - frame by frame -
                # comes through untouched
                sibs_ = [x for x in dbx.by_pgn.get(d.pgn, []) if x is not d and x.encodable and x.fixed_layout]
                if sibs_ and c % 2 == 0 and len(frames) > 1:
                    sib = sibs_[c % len(sibs_)]
                    try:
                        nb_s = sib.length if sib.length is not None else (sib.total_bits() + 7) // 8
                        ps = dbx.pack(sib, gen.base_raws(sib, rng, dbx))
                        if nb_s == nb and c % 4 == 0:
                            # the sibling's payload differs from this message's only in the sibling's match fields (where those sit
                            # late in the payload, the two messages begin with the very same frame)
                            ps2 = payload
                            for f_ in sib.match_fields:
                                ps2 = (ps2 & ~(f_.mask << f_.off)) | (f_.match << f_.off)
                            if dbx.select(sib.pgn, ps2) is sib:
                                ps = ps2
                                acc.count("filtered_siblings_sharing_the_leading_bytes")
                        ms = src_dec.decode_basic_string(wire.plain_line(3, sib.pgn, 7, 255, ps.to_bytes(nb_s, "little")), already_combined=True) if dbx.select(sib.pgn, ps) is sib else None
                    except Exception:  # noqa: BLE001
                        ms = None
                    if ms is not None and ms.id == sib.id:
                        ms.source, ms.destination, ms.priority = 7, 255, 3
                        decf = NMEA2000Decoder(exclude_pgns=[sib.id])
                        encf = NMEA2000Encoder()
                        try:
                            for ident_, data_, raw_ in encode_frames(encf, fmt, ms):
                                feed(decf, fmt, ident_, data_, raw_)
                            rf = None
                            for ident_, data_, raw_ in encode_frames(encf, fmt, m):
                                rf = feed(decf, fmt, ident_, data_, raw_)
                        except Exception as e_:  # noqa: BLE001
                            rf = e_
                        acc.count("messages_reassembled_after_a_sibling_dropped_by_an_id_filter")
                        if rf is None or isinstance(rf, Exception) or project.msg_proj(rf, with_hash=False) != project.msg_proj(expect, with_hash=False):
                            acc.violation("no-message-at-last-frame" if rf is None else "reassembled-message-differs",
                                          f"{ctx}: on a decoder whose id filter had just dropped a {sib.id} message of the same stream: {'nothing returned' if rf is None else repr(rf)[:120]}",
                                          {"ctx": ctx, "filtered_sibling": sib.id, "frames": [x.hex() for _, x, _ in frames]})
                half_done = c % 4 == 1 and len(frames) > 1
                if half_done:
                    # right before this message the same stream carried a complete message that the codec refuses (a field out of
                    # range: an error at its last frame), with another sequence counter; and while this message is in transit a
                    # neighbouring stream starts a long message of its own
                    from .c04 import refused_payloads
                    ref_ = refused_payloads(d.pgn, rng)
                    if ref_:
                        q_ = (seq + 3) % 8
                        for f_ in wire.fast_frames(rng.choice(ref_), q_, 0xFF):
                            try:
                                dec.decode_tcp(wire.ebyte_frame(wire.can_id(3, d.pgn, 7, 255), f_))
                            except Exception:  # noqa: BLE001  (the refusal)
                                acc.count("refused_messages_on_the_stream_right_before")
                for k, (ident, data, raw) in enumerate(frames):
                    if half_done and k > 0:
                        try:
                            dec.decode_tcp(wire.ebyte_frame(wire.can_id(3, d.pgn, 8, 255), bytes([((seq + k) % 8) << 5, 40]) + bytes(6)))
                        except Exception:  # noqa: BLE001
                            pass
                        acc.count("neighbour_stream_frames_between_frames")
                    if c % 3 == 0 and k > 0:
                        # between two frames other devices claim addresses (first claims and take-overs by another NAME);
                        # addresses 2 and 25 share decimal digits with this stream's destination 255, 70 with its source 7
                        from ..hist import claim_name
                        for a_ in (2, 25, 70):
                            try:
                                dec.decode_tcp(wire.ebyte_frame(wire.can_id(6, 60928, a_, 255), claim_name(1000 + c * 7 + k, 1851).to_bytes(8, "little")))
                            except Exception:  # noqa: BLE001
                                pass
                        acc.count("address_claims_between_frames")
                    if k < len(frames2):
                        try:
                            r2 = feed(dec2, fmt, *frames2[k])
                        except Exception:  # noqa: BLE001
                            r2 = None
                    try:
                        r = feed(dec, fmt, ident, data, raw)
                    except Exception as e:  # noqa: BLE001
                        acc.violation("decode-raised-on-own-frames", f"{ctx} frame {k}: {type(e).__name__}: {e}",
                                      {"ctx": ctx, "frames": [x.hex() for _, x, _ in frames]})
                        break
                    acc.count("decoder_returns_checked")
                    last = k == len(frames) - 1
                    if not last and r is not None:
                        acc.violation("message-before-last-frame", f"{ctx}: returned at frame {k}/{len(frames)}",
                                      {"ctx": ctx, "frames": [x.hex() for _, x, _ in frames]})
                    if last:
                        if r is None:
                            acc.violation("no-message-at-last-frame", f"{ctx}: nothing returned at the last frame",
                                          {"ctx": ctx, "frames": [x.hex() for _, x, _ in frames]})
                        elif project.msg_proj(r, with_hash=False) != project.msg_proj(expect, with_hash=False):
                            acc.violation("reassembled-message-differs", f"{ctx}: frame-wise decode differs from the source message",
                                          {"ctx": ctx, "frames": [x.hex() for _, x, _ in frames]})
                        else:
                            acc.count("messages_reassembled_equal")
                if expect2 is not None and frames2:
                    for k in range(len(frames), len(frames2)):
                        try:
                            r2 = feed(dec2, fmt, *frames2[k])
                        except Exception:  # noqa: BLE001
                            r2 = None
                    acc.count("neighbour_messages_checked")
                    if r2 is None or project.msg_proj(r2, with_hash=False) != project.msg_proj(expect2, with_hash=False):
                        acc.violation("neighbour-decoder-loses-its-message", f"{ctx}: a second decoder reassembling another message of the same stream at the same time "
                                      f"returned {'nothing' if r2 is None else 'a different message'}", {"ctx": ctx, "frames": [x.hex() for _, x, _ in frames2]})


def run_fallback(spec, acc):
    """Public decode side: arbitrary payloads >= 3 bytes observed through the PGN 126720 fallback definition."""
    dbx = refdb.db()
    rng = gen.rng_for(spec["seed"], ID, spec["name"])
    fb = next((d for d in dbx.by_pgn.get(126720, []) if d.fallback), None)
    if fb is None:
        acc.note("no fallback definition for PGN 126720 in the database")
        return
    name = f"encode_pgn_126720_{fb.id}"
    box = {"payload": HEAD_PROBE}
    orig = getattr(encoder_mod, name, None)
    setattr(encoder_mod, name, lambda m: box["payload"])
    try:
        try:
            probe = encode_frames(NMEA2000Encoder(), "ebyte", NMEA2000Message(PGN=126720, id=fb.id, priority=6, source=33, destination=44))
            ok = wire.parse_fast_frames([d for _, d, _ in probe]).get("payload", b"")[:len(HEAD_PROBE)] == HEAD_PROBE
        except Exception:  # noqa: BLE001
            ok = False
        if not ok:
            acc.note("stub codec seam unavailable: fallback-definition payloads not exercised")
            return
        for fmt in FORMATS:
            enc, dec = NMEA2000Encoder(), NMEA2000Decoder()
            msg = NMEA2000Message(PGN=126720, id=fb.id, priority=6, source=33, destination=44)
            lengths = list(range(3, 224)) if spec["tier"] == "thorough" else list(range(3, 224, 1))
            for n in lengths:
                head = bytes([0xFE, 0x07])          # manufacturer code 2046, industry 0: matches no sibling definition
                payload = head + bytes(rng.randrange(256) for _ in range(n - 3)) + bytes([rng.randrange(1, 256)])
                if dbx.select(126720, int.from_bytes(payload, "little")) is not fb:
                    continue
                box["payload"] = payload
                frames = encode_frames(enc, fmt, msg)
                check_structure(frames, payload, None, acc, f"fallback {fmt} len={n}")
                acc.case((fmt, "fb", payload))
                r = None
                for k, (ident, data, raw) in enumerate(frames):
                    r = feed(dec, fmt, ident, data, raw)
                    acc.count("decoder_returns_checked")
                    if k < len(frames) - 1 and r is not None:
                        acc.violation("message-before-last-frame", f"fallback {fmt} len={n}: returned at frame {k}", {"fmt": fmt, "len": n})
                if r is None or r.id != fb.id:
                    acc.violation("no-message-at-last-frame", f"fallback {fmt} len={n}: got {None if r is None else r.id}",
                                  {"fmt": fmt, "len": n, "payload_hex": payload.hex()})
                    continue
                data_field = r.fields[-1].value
                got = int.from_bytes(data_field, "big") if isinstance(data_field, (bytes, bytearray)) else data_field
                if got != int.from_bytes(payload[2:], "little") or (r.source, r.destination, r.priority) != (33, 44, 6):
                    acc.violation("reassembled-payload-differs", f"fallback {fmt} len={n}: data {payload[2:].hex()} came back {got:x}",
                                  {"fmt": fmt, "len": n, "payload_hex": payload.hex()})
                else:
                    acc.count("messages_reassembled_equal")
                    acc.count("public_decode_side_payloads_equal")
    finally:
        if orig is not None:
            setattr(encoder_mod, name, orig)
        else:
            delattr(encoder_mod, name)


def run_multistream(spec, acc):
    """One encoder, one decoder, several (PGN, source) streams: the encoder's counter is shared by all streams,
    so a stream sees the same counter again when exactly 7 (15, ...) other fast messages were sent in between."""
    rng = gen.rng_for(spec["seed"], ID, spec["name"])
    fmt = spec["fmt"]
    quick = spec["tier"] == "quick"
    box, cleanup = install_stub()
    if not seam_works(box):
        cleanup()
        acc.note("stub codec seam unavailable: multistream sequences not exercised")
        return
    try:
        patterns = []
        for gap in (7, 15, 6, 8, 1):
            patterns.append(["A"] + ["B"] * gap + ["A"] + ["C"] * gap + ["A", "B"])
        patterns.append(["A", "B", "C"] * 12)
        for _ in range(6 if quick else 800):
            patterns.append([rng.choice("ABCD") for _ in range(rng.randint(10, 60))])
        srcs = {"A": 11, "B": 12, "C": 13, "D": 14}
        for pi, pat in enumerate(patterns):
            enc, dec = NMEA2000Encoder(), NMEA2000Decoder()
            prev_seq = None
            for warm in range(pi % 8):          # start the shared counter at every state
                box["payload"] = b"\x01\x02\x03"
                encode_frames(enc, fmt, NMEA2000Message(PGN=STUB_PGN, id="verifStub", priority=1, source=99, destination=255))
            for k, sname in enumerate(pat):
                n = rng.choice([0, 1, 6, 7, 8, 13, 14, 20, 50, 223])
                payload = bytes(rng.randrange(256) for _ in range(max(n - 1, 0))) + (bytes([rng.randrange(1, 256)]) if n else b"")
                box["payload"] = payload
                msg = NMEA2000Message(PGN=STUB_PGN, id="verifStub", priority=3, source=srcs[sname], destination=255)
                frames = encode_frames(enc, fmt, msg)
                ctx = f"multistream {fmt} pattern#{pi} msg#{k} stream {sname} len={n}"
                seq = check_structure(frames, payload, prev_seq if pi >= len(patterns) else None, acc, ctx)
                acc.case((fmt, "ms", pi, k, payload))
                w = {"ctx": ctx, "pattern": "".join(pat)[:80], "frames": [d.hex() for _, d, _ in frames][:6], "payload_hex": payload.hex()[:80]}
                for j, (ident, data, raw) in enumerate(frames):
                    try:
                        r = feed(dec, fmt, ident, data, raw)
                    except Exception as e:  # noqa: BLE001
                        acc.violation("decode-raised-on-own-frames", f"{ctx} frame {j}: {type(e).__name__}: {e}", w)
                        break
                    acc.count("decoder_returns_checked")
                    last = j == len(frames) - 1
                    if not last and r is not None:
                        acc.violation("message-before-last-frame", f"{ctx}: returned at frame {j}/{len(frames)}", w)
                    if last:
                        if r is None:
                            acc.violation("no-message-at-last-frame", f"{ctx}: nothing returned at the last frame (stream seen before: {sname in pat[:k]})", w)
                        elif r.fields[0].value != int.from_bytes(payload, "little") or r.source != srcs[sname]:
                            acc.violation("reassembled-payload-differs", f"{ctx}: payload came back different", w)
                        else:
                            acc.count("messages_reassembled_equal")
                            acc.count("multistream_messages_equal")
            acc.cover("multistream_patterns", "".join(pat)[:24])
    finally:
        cleanup()


def run_shard(spec, acc):
    if spec["kind"] == "multistream":
        return run_multistream(spec, acc)
    if spec["kind"] == "stub":
        try:
            run_stub(spec, acc)
        except AttributeError as e:
            acc.note(f"stub seam unavailable: {e}")
            acc.set_exhaustive("lengths 0..223 x counter states 0..7 x 3 formats", False)
    elif spec["kind"] == "public":
        run_public(spec, acc)
    else:
        run_fallback(spec, acc)


def replay(w, acc):
    acc.note("replay: witnesses list the frames; re-run ./check C03 to reproduce (deterministic for a given VERIF_SEED)")
