"""C09 - encoding never silently corrupts a value."""
from __future__ import annotations

import copy
import math
from datetime import date, time, timedelta
from fractions import Fraction

from ..lib import NMEA2000Decoder, NMEA2000Encoder, NMEA2000Message, NMEA2000Field
from .. import refdb, gen, wire

ID = "C09"
LEVEL = "exploration"
RULE = ("cases = (encodable definition, field, assigned value): a message decoded from an in-range base payload gets "
        "one field re-assigned (in range incl. both ends and between steps, absent, one step beyond either representable "
        "end, far out of range, negative for unsigned, NaN/inf, oversize raw for lookup/reserved/date/time) or removed; "
        "the real encoder runs; outcome must be an error or a payload that the real decoder maps back to the assigned "
        "value (numbers within resolution/2, everything else exactly, absent to absent), and the payload may differ from "
        "the base payload only inside that field's bits; non-trivial = encoder returned a payload that was decoded and "
        "compared, or raised for an out-of-range/missing assignment; distinct = distinct (definition, field, assignment)")
ASSUMPTIONS = ["field conventions of the API: numbers/floats/reserved via value, lookups/dates/times via raw_value (value given consistently)",
               "any exception type counts as 'fails with an error'",
               "not judged: a lookup given by name only with raw_value left at the dataclass default 0"]
REQUIRED_COUNTERS = ["encodes_attempted", "payloads_decoded_and_compared", "rejections_observed", "locality_checks"]
SHARD_TIMEOUT = {"quick": 300, "thorough": 3000}


def shards(tier, seed):
    n = 16 if tier == "quick" else 64
    return [{"name": f"defs-{i}of{n}", "i": i, "n": n, "tier": tier, "seed": seed} for i in range(n)]


def assignments(f, rng, dbx, quick):
    """Yield (label, value, raw_value, expect) ; expect in {'ok','reject','either'}; for 'ok'/'either' the
    comparison target is derived from (value, raw_value)."""
    r = f.res
    rf = float(r)
    bits = f.bits
    t = f.ftype
    if t in ("NUMBER", "PGN"):
        lo_db, hi_db = f.raw_bounds()              # database range in codes
        smin = -(1 << (bits - 1)) if f.signed else 0
        na = (1 << (bits - 1)) - 1 if f.signed else (1 << bits) - 1
        top = na - 1                                 # largest code the encoder may emit
        hi_db = min(hi_db, top)                      # the all-ones / not-available code is never judged as a value (C01 carve-out)
        if f.offset is not None:
            return                                   # database Offset is not applied by the library (C01 finding): not judged here
        def val(k, frac=0.0):
            x = (Fraction(k) + Fraction(frac).limit_denominator(1000)) * r
            return int(x) if x.denominator == 1 and isinstance(f.res.numerator, int) and r.denominator == 1 else float(x)
        def ok_or_either(v):
            # the assigned float itself decides: for fields wider than the float mantissa the float nearest to a
            # range end may denote a code beyond it
            q = Fraction(v) / r
            code = (q + Fraction(1, 2)).__floor__()
            return "ok" if (lo_db <= code <= hi_db and abs(q - code) < Fraction(49, 100)) else "either"
        if hi_db >= lo_db:
            for name, k in (("range_min", lo_db), ("range_max", hi_db), ("in_range", rng.randint(lo_db, hi_db)), ("in_range2", rng.randint(lo_db, hi_db))):
                yield name, val(k), None, ok_or_either(val(k))
            k = rng.randint(lo_db, hi_db)
            if k + 1 <= hi_db:
                yield "between_steps_0.3", val(k, 0.3), None, "ok"
                yield "between_steps_0.49", val(k, 0.49), None, "ok"
                yield "between_steps_0.7", val(k, 0.7), None, "ok"
            if lo_db <= 0 <= hi_db:
                yield "zero", val(0), None, "ok"
        yield "absent", None, None, "ok"
        # codes above the database range but still representable (reserved / error codes)
        if hi_db + 1 <= top:
            yield "reserved_code", val(top), None, "either"
        # strictly between the largest legal code and the not-available code: rounds onto one of the two
        yield "just_above_top_0.3", val(top, 0.3), None, "either"
        yield "just_above_top_0.7", val(top, 0.7), None, "reject"
        yield "just_below_min_0.7", val(smin - 1, 0.3), None, "reject"
        yield "one_step_above_representable", val(na), None, "reject"
        yield "two_steps_above_representable", val(na + 1), None, "reject"
        yield "one_step_below_representable", val(smin - 1), None, "reject"
        yield "far_above", 1e30, None, "reject"
        yield "far_below", -1e30, None, "reject"
        if not f.signed:
            yield "negative_for_unsigned", val(-1), None, "reject"
            yield "negative_for_unsigned_small", -0.6 * rf, None, "reject"
        yield "wrap_candidate", val((1 << bits) + 1), None, "reject"
        yield "nan", float("nan"), None, "reject"
        yield "inf", float("inf"), None, "reject"
    elif t == "FLOAT":
        for name, x in (("f_zero", 0.0), ("f_one", 1.0), ("f_neg", -2.5), ("f_rand", gen.f32(gen.f32_raw(rng.uniform(-1000, 1000))))):
            lo = float(f.rmin) if f.rmin is not None else -math.inf
            hi = float(f.rmax) if f.rmax is not None else math.inf
            yield name, x, None, ("ok" if lo <= x <= hi else "either")
        yield "f_too_big_for_single", 1e300, None, "reject"
    elif t == "LOOKUP":
        full = (1 << bits) - 1
        tab = dbx.lookups[f.lookup]
        vals = [v for v in tab if 0 <= v <= full]
        for v in (rng.sample(vals, min(3, len(vals))) if vals else []):
            yield "lookup_defined", tab[v], v, "ok"
        # given by name only (raw_value None): every name of the table, once per process in the quick tier
        seen = _NAMES_DONE.setdefault(f.lookup, set())
        for v in vals:
            if quick and v in seen:
                continue
            seen.add(v)
            yield "lookup_by_name", tab[v], None, "ok"
        und = next((v for v in (full, full - 1, 0) if v not in tab), None)
        if und is not None:
            yield "lookup_undefined_code", None, und, "ok"
        yield "lookup_oversize", None, full + 1, "reject"
        yield "lookup_oversize_wrap_to_1", None, (1 << bits) + 1, "reject"
        yield "lookup_negative", None, -1, "reject"
    elif t == "RESERVED":
        full = (1 << bits) - 1
        yield "reserved_all_ones", full, full, "ok"
        yield "reserved_zero", 0, 0, "ok"
        yield "reserved_oversize", full + 1, full + 1, "reject"
        yield "reserved_negative", -1, -1, "reject"
    elif t == "DATE":
        lo, hi = f.raw_bounds()
        for name, k in (("date_min", lo), ("date_max", hi), ("date_mid", rng.randint(lo, hi))):
            yield name, date(1970, 1, 1) + timedelta(days=k), k, "ok"
        # given by value only (raw_value None): the encoder derives the day count from the date object
        for name, k in (("date_by_value_min", lo), ("date_by_value_mid", rng.randint(lo, hi)), ("date_by_value_1970", 0 if lo <= 0 <= hi else lo)):
            yield name, date(1970, 1, 1) + timedelta(days=k), None, "ok"
        # what from_json() leaves in a message: the date as ISO text (here without its raw value) - refuse it or get it right
        yield "date_as_iso_text", (date(1970, 1, 1) + timedelta(days=rng.randint(lo, hi))).isoformat(), None, "reject"
        yield "date_absent", None, None, "ok"
        yield "date_oversize", None, (1 << bits) + 5, "reject"
        yield "date_negative", None, -3, "reject"
    elif t in ("TIME", "DURATION"):
        lo, hi = f.raw_bounds()
        for name, k in (("time_min", lo), ("time_max", hi), ("time_mid", rng.randint(lo, hi)), ("time_mid2", rng.randint(lo, hi))):
            secs = float(k * r)
            v = None
            if t == "TIME" and 0 <= secs < 86400:
                si = int(secs)
                v = time(si // 3600, (si % 3600) // 60, si % 60)
            yield name, (v if t == "TIME" else secs), secs, "ok"
        if t == "TIME":
            # given by value only (a datetime.time, raw_value None): whole seconds, scaled by the field's resolution; and
            # times with a sub-second part (the hour, minute and second given must come back, whatever is done with the rest)
            for name, si, us in (("time_by_value_midnight", 0, 0), ("time_by_value_mid", rng.randrange(86400), 0), ("time_by_value_last_second", 86399, 0),
                                 ("time_by_value_microseconds", rng.randrange(86399), rng.randrange(1, 1000000)), ("time_by_value_last_microsecond", 86399, 999999),
                                 ("time_by_value_just_below_next_second", rng.randrange(86399), 999960)):
                if lo <= Fraction(si) / r <= hi:
                    yield name, time(si // 3600, (si % 3600) // 60, si % 60, us), None, "ok"
        yield "time_as_iso_text", "12:34:56", None, "reject"
        yield "time_absent", None, None, "ok"
        yield "time_oversize", None, float(((1 << bits) + 7) * r), "reject"
        if not f.signed:
            yield "time_negative", None, float(-2 * r), "reject"


_NAMES_DONE: dict = {}


def get_field(m, fid):
    return next((x for x in m.fields if x.id == fid), None)


def run_shard(spec, acc):
    dbx = refdb.db()
    quick = spec["tier"] == "quick"
    dec, enc = NMEA2000Decoder(), NMEA2000Encoder()
    defs = gen.shard_by_pgn([d for d in dbx.defs if d.encodable], spec["i"], spec["n"])
    # sibling definitions interleaved (rep-major order): what was encoded before must not matter
    order = [(rep, d) for rep in range(3 if quick else 120) for d in defs]
    for rep, d in order:
        rng = gen.rng_for(spec["seed"], ID, d.id, rep)
        nb = d.length if d.length is not None else (d.total_bits() + 7) // 8
        for _once in (0,):
            base_payload = dbx.pack(d, gen.base_raws(d, rng, dbx))
            if dbx.select(d.pgn, base_payload) is not d:
                continue
            try:
                base = dec.decode_basic_string(wire.plain_line(3, d.pgn, 5, 255, base_payload.to_bytes(nb, "little")), already_combined=True)
                base_out = int.from_bytes(bytes.fromhex((enc.encode_actisense(base).split() + [""])[2]), "little")
            except Exception:  # noqa: BLE001
                acc.count("base_not_codable")
                continue
            if base is None:
                continue
            # the same field values in messages of another shape: fields in reverse and in random order, an additional
            # field the definition does not know, and a message built by hand from nothing but ids, values and raw
            # values - the payload must be the one the decoded message encodes to
            shapes = []
            m_ = copy.deepcopy(base)
            m_.fields.reverse()
            shapes.append(("fields-reversed", m_))
            m_ = copy.deepcopy(base)
            rng.shuffle(m_.fields)
            m_.fields.append(NMEA2000Field(id="notInTheDefinition", value=1, raw_value=1))
            shapes.append(("fields-shuffled-plus-unknown-field", m_))
            shapes.append(("built-by-hand", NMEA2000Message(PGN=base.PGN, id=base.id, priority=base.priority, source=base.source, destination=base.destination,
                                                               fields=[NMEA2000Field(id=x.id, value=x.value, raw_value=x.raw_value) for x in base.fields])))
            for label_, m_ in shapes:
                acc.count("encodes_attempted")
                acc.count("message_shapes_compared")
                try:
                    o_ = int.from_bytes(bytes.fromhex((enc.encode_actisense(m_).split() + [""])[2]), "little")
                except Exception as e:  # noqa: BLE001
                    acc.violation("same-values-other-message-shape-rejected", f"{d.id}: {label_}: {type(e).__name__}: {e}", {"definition": d.id, "shape": label_})
                    continue
                if o_ != base_out:
                    acc.violation("same-values-other-message-shape-encodes-differently", f"{d.id}: {label_}: payload {o_:x} instead of {base_out:x}",
                                  {"definition": d.id, "shape": label_, "base_payload_hex": base_payload.to_bytes(nb, "little").hex()})
            # one message object used twice: built by hand from ids and values only, encoded, then given the values of another
            # reading IN PLACE (an application that keeps one message per PGN and updates it) and encoded again. What is
            # sent the second time is what a new message with those values encodes to - the first encoding left nothing
            # behind in the object that could outvote the assignment
            p2_ = dbx.pack(d, gen.base_raws(d, rng, dbx))
            if dbx.select(d.pgn, p2_) is d and p2_ != base_payload:
                try:
                    base2 = dec.decode_basic_string(wire.plain_line(3, d.pgn, 5, 255, p2_.to_bytes(nb, "little")), already_combined=True)
                except Exception:  # noqa: BLE001
                    base2 = None
                if base2 is not None and [x.id for x in base2.fields] == [x.id for x in base.fields]:
                    def enc_out(m__):
                        try:
                            return ("ok", (enc.encode_actisense(m__).split() + [""])[2])
                        except Exception as e__:  # noqa: BLE001
                            return ("exc", type(e__).__name__)
                    for with_raw in (False, True):
                        def hand(src_):
                            return NMEA2000Message(PGN=src_.PGN, id=src_.id, priority=3, source=5, destination=255,
                                                   fields=[NMEA2000Field(id=x.id, value=x.value, raw_value=(x.raw_value if with_raw else None)) for x in src_.fields])
                        kept_ = hand(base)
                        first_ = enc_out(kept_)
                        for x_, y_ in zip(kept_.fields, base2.fields):
                            x_.value = y_.value
                            if with_raw:
                                x_.raw_value = y_.raw_value
                        second_ = enc_out(kept_)
                        fresh_ = enc_out(hand(base2))
                        acc.count("encodes_attempted", 3)
                        acc.count("messages_edited_in_place_and_encoded_again")
                        if first_[0] == "ok" and second_ != fresh_:
                            diff_ = ""
                            if second_[0] == fresh_[0] == "ok":
                                xo = int.from_bytes(bytes.fromhex(second_[1]), "little") ^ int.from_bytes(bytes.fromhex(fresh_[1]), "little")
                                diff_ = ", fields: " + ", ".join(f.id for f in d.fields if f.bits is not None and f.off is not None and xo & (f.mask << f.off))[:200]
                            acc.violation("edited-message-encodes-stale-values", f"{d.id}: a hand-built message ({'values and raw values' if with_raw else 'values only'}) encoded once, then "
                                          f"assigned other values in place: it encodes to {second_[1][:60]}, a new message with the same values to {fresh_[1][:60]}{diff_}",
                                          {"definition": d.id, "with_raw_values": with_raw, "first_payload_hex": base_payload.to_bytes(nb, "little").hex(), "second_payload_hex": p2_.to_bytes(nb, "little").hex()})
            # missing field
            for f in d.fields:
                m = copy.deepcopy(base)
                m.fields = [x for x in m.fields if x.id != f.id]
                acc.count("encodes_attempted")
                try:
                    enc.encode_actisense(m)
                    if any(x.id == f.id for x in base.fields):
                        acc.case((d.id, f.id, "missing"))
                        acc.violation("missing-field-encoded", f"{d.id}: field {f.id} removed but encode succeeded", {"definition": d.id, "field": f.id})
                except Exception:  # noqa: BLE001
                    acc.case((d.id, f.id, "missing"))
                    acc.count("rejections_observed")
                    acc.count("missing_field_rejected")
            for f in d.fields:
                if f.match is not None:
                    continue
                fm = f.mask << f.off
                for label, value, raw, expect in assignments(f, rng, dbx, quick):
                    m = copy.deepcopy(base)
                    lf = get_field(m, f.id)
                    if lf is None:
                        continue
                    lf.value = value
                    lf.raw_value = raw if raw is not None or f.ftype in ("LOOKUP", "DATE", "TIME", "DURATION") else value
                    w = {"definition": d.id, "field": f.id, "ftype": f.ftype, "bits": f.bits, "signed": f.signed, "label": label,
                         "assigned_value": repr(value), "assigned_raw": repr(lf.raw_value), "base_payload_hex": base_payload.to_bytes(nb, "little").hex()}
                    acc.count("encodes_attempted")
                    acc.cover("assignment_classes", label)
                    try:
                        text = enc.encode_actisense(m)
                    except Exception:  # noqa: BLE001
                        acc.case((d.id, f.id, label, repr(value), repr(raw)))
                        acc.count("rejections_observed")
                        if expect == "ok":
                            key = "in-range-assignment-rejected"
                            if f.ftype in ("NUMBER", "PGN") and f.bits > 53 and value is not None:
                                top = (1 << (f.bits - 1)) - 2 if f.signed else (1 << f.bits) - 2
                                code = Fraction(value) / f.res
                                if 0 <= top - code <= (1 << (f.bits - 52)):
                                    key = "wide-field-top-codes-double-rounding"
                            acc.violation(key, f"{d.id}.{f.id} ({f.ftype}): in-range assignment '{label}' = {value!r}/{raw!r} was rejected", w)
                        continue
                    out = bytes.fromhex((text.split() + [""])[2])
                    oi = int.from_bytes(out, "little")
                    if acc.evaluations % 3 == 0 and d.type in ("Fast", "Single") and len(out) <= 223:
                        # the same assignment through the packet formats (frames of a gateway): what a receiver reassembles from them is
                        # the very payload the payload-level route produced - same bytes, same length
                        from .c19 import reassemble
                        try:
                            fr_ = [wire.parse_ebyte(p_)[1] for p_ in enc.encode_ebyte(copy.deepcopy(m))]
                            got_ = (reassemble(fr_) or [None])[-1] if d.type == "Fast" else fr_[0][:len(out)]
                        except Exception as e_:  # noqa: BLE001
                            got_ = f"{type(e_).__name__}: {e_}"
                        acc.count("assignments_also_sent_through_the_packet_format")
                        if got_ != out:
                            acc.violation("value-corrupted:packet-format-differs-from-payload", f"{d.id}.{f.id}: assignment '{label}': the packets of encode_ebyte reassemble to "
                                          f"{got_.hex() if isinstance(got_, bytes) else got_!r}, the payload-level encoding is {out.hex()}", dict(w, field=f.id))
                    acc.case((d.id, f.id, label, repr(value), repr(raw)))
                    w["payload_hex"] = out.hex()
                    # locality: only this field's bits may differ from the base encoding
                    acc.count("locality_checks")
                    if (oi ^ base_out) & ~fm:
                        acc.violation("change-leaks-outside-field", f"{d.id}.{f.id}: assignment '{label}' changed bits outside the field (xor {((oi ^ base_out) & ~fm):#x})", w)
                    # the assignment may have turned the payload into one that the database assigns to a sibling
                    # definition (the changed field is a match field of that sibling): outside this property
                    if dbx.select(d.pgn, oi) is not d:
                        acc.count("decoded_as_other_definition")
                        continue
                    # decode back
                    try:
                        back = dec.decode_basic_string(wire.plain_line(3, d.pgn, 5, 255, out), already_combined=True)
                    except Exception as e:  # noqa: BLE001
                        key = classify_undecodable(f, label, oi, e)
                        acc.violation(key, f"{d.id}.{f.id} ({f.ftype}): assignment '{label}' = {value!r}/{raw!r} encoded to a payload the decoder rejects: {e}", w)
                        continue
                    if back is None or back.id != d.id:
                        acc.count("decoded_as_other_definition")
                        continue
                    acc.count("payloads_decoded_and_compared")
                    bf = get_field(back, f.id)
                    ok, detail = same_value(f, value, lf.raw_value, bf)
                    if not ok:
                        key = classify_corruption(f, label, expect)
                        acc.violation(key, f"{d.id}.{f.id} ({f.ftype}, {f.bits} bits): assignment '{label}' = {value!r}/{lf.raw_value!r} came back as {bf.value!r}/{bf.raw_value!r} ({detail})", w)
                    elif expect == "reject":
                        acc.count("beyond_range_but_faithfully_roundtripped")
            if len(acc.samples) < 4:
                acc.sample({"definition": d.id, "fields": len(d.fields)})


def same_value(f, value, raw, bf):
    t = f.ftype
    if t in ("NUMBER", "PGN"):
        if value is None:
            return bf.value is None, "absent must stay absent"
        if bf.value is None:
            return False, "value became absent"
        tol = float(f.res) / 2 * (1 + 1e-9) + 1e-12 * abs(value)
        return abs(float(bf.value) - float(value)) <= tol, f"|diff|={abs(float(bf.value) - float(value))} tol={tol}"
    if t == "FLOAT":
        return bf.value == gen.f32(gen.f32_raw(value)), "float32 rounding of the assigned value expected"
    if t == "LOOKUP":
        if raw is None and isinstance(value, str):
            return bf.value == value, "the name given must come back"
        return bf.raw_value == raw, "raw code must be identical"
    if t == "RESERVED":
        return bf.value == value, "reserved bits must be identical"
    if t == "DATE":
        if raw is None and isinstance(value, str):
            return bf.value is not None and bf.value.isoformat() == value, "the date given as text must come back (or be refused)"
        if raw is None and value is not None:
            return bf.value == value, "the date given must come back"
        if raw is None:
            return bf.raw_value is None and bf.value is None, "absent must stay absent"
        return bf.raw_value == raw, "day count must be identical"
    if t in ("TIME", "DURATION"):
        if raw is None and isinstance(value, str):
            return isinstance(bf.value, time) and bf.value.isoformat() == value, "the time given as text must come back (or be refused)"
        if raw is None and value is not None:
            want = value.hour * 3600 + value.minute * 60 + value.second
            exact = want + value.microsecond / 1e6
            if bf.raw_value is None or not isinstance(bf.value, time):
                return False, "value became absent / is no time"
            tol = float(f.res) / 2 * (1 + 1e-9)
            near = abs(float(bf.raw_value) - want) <= tol or abs(float(bf.raw_value) - exact) <= tol
            same_hms = (bf.value.hour, bf.value.minute, bf.value.second) == (value.hour, value.minute, value.second)
            return near and (same_hms or f.res > 1), f"the time given ({value.isoformat()}) must come back (to the second)"
        if raw is None:
            return bf.raw_value is None, "absent must stay absent"
        if bf.raw_value is None:
            return False, "value became absent"
        return abs(float(bf.raw_value) - float(raw)) <= float(f.res) / 2 * (1 + 1e-9), "tick count must be identical"
    return True, ""


def classify_undecodable(f, label, payload_int, e):
    code = (payload_int >> f.off) & f.mask
    range_err = "maximum" in str(e) or "minimum" in str(e)
    if f.ftype in ("LOOKUP", "RESERVED", "DATE", "TIME", "DURATION") and any(s in label for s in ("oversize", "negative")):
        # the out-of-range raw was masked into the field; the wrapped code happens to be one the decoder refuses
        return f"oversize-raw-masked-silently:{'TIME-DURATION' if f.ftype in ('TIME', 'DURATION') else f.ftype}"
    if f.ftype in ("NUMBER", "PGN") and range_err and code != f.na_raw() and not f.in_range(code):
        # the encoder only checks the representable interval, the decoder checks the database range
        return "encoder-accepts-codes-outside-database-range"
    return f"encoded-payload-undecodable:{f.ftype}"


def classify_corruption(f, label, expect):
    if expect == "reject" and f.ftype in ("LOOKUP", "RESERVED", "DATE", "TIME", "DURATION") and \
            any(s in label for s in ("oversize", "negative")):
        return f"oversize-raw-masked-silently:{'TIME-DURATION' if f.ftype in ('TIME', 'DURATION') else f.ftype}"
    return f"value-corrupted:{f.ftype}:{label}"


def replay(w, acc):
    acc.note("replay: witness names definition/field/assignment and base payload; re-run ./check C09 (deterministic per seed)")
