"""C20 - the serial (USB) stream resynchronises after noise with bounded buffering."""
from __future__ import annotations

import asyncio
import os
import collections

from ..lib import NMEA2000Decoder, NMEA2000Encoder
from .. import gen, wire, simgw, project

ID = "C20"
LEVEL = "fault_enumeration"
RULE = ("cases = sessions of the real Waveshare client on the virtual-time loop: a byte stream assembled from valid "
        "20-byte packets (body free of the AA 55 marker), full-length corrupted packets, truncated packets and noise "
        "runs (marker-free, containing markers, ending in half a marker; lengths 1..10^5, thorough 10^6) is fed under "
        "enumerated read segmentations; the whole stream is re-scanned so ground truth knows where markers really are; "
        "monitors: messages delivered to the receive callback, and the bytes the client object retains at every "
        "quiescent point (object-graph walk of its attributes, no attribute name assumed); non-trivial = stream with "
        "at least one damaged region and at least 2 required packets; distinct = distinct (stream, segmentation)")
ASSUMPTIONS = ["required = clean packets in sync (start of stream, after another packet, after marker-free noise or a full-length corrupted packet); the first clean packet after marker-bearing noise or a truncated packet is optional",
               "every delivered message must be a marker-led 20-byte window of the stream with a valid checksum, in stream order",
               "retained-bytes bound: 128 bytes at quiescent points (receive task blocked in read)"]
REQUIRED_COUNTERS = ["sessions", "required_packets_delivered", "retained_bytes_samples", "damaged_regions"]
SHARD_TIMEOUT = {"quick": 400, "thorough": 3000}
BOUND = 128


def shards(tier, seed):
    n = 12 if tier == "quick" else 48
    out = [{"name": f"streams-{i}", "what": "streams", "i": i, "tier": tier, "seed": seed} for i in range(n)]
    out.append({"name": "long-noise", "what": "long_noise", "tier": tier, "seed": seed})
    out.append({"name": "allcuts", "what": "allcuts", "tier": tier, "seed": seed})
    for i in range(2 if tier == "quick" else 8):
        out.append({"name": f"long-damaged-{i}", "what": "long_damaged", "tier": tier, "seed": seed})
    out.append({"name": "conformance-pty", "what": "conformance_pty", "tier": tier, "seed": seed})
    return out


# ---------------------------------------------------------------------------
def valid_packet(rng, n, checksum=None):
    """A valid packet whose bytes after the header do not contain the marker. checksum=0xAA forces the last byte
    to be the first half of a marker (a receiver must not pair it with a following 0x55)."""
    for _ in range(5000):
        src = rng.randrange(1, 250)
        data = bytes([n % 253, rng.randrange(256), rng.randrange(0x7F), 0xFF, 0x7F, 0xFF, 0x7F, 0xFD])      # (SID 253..255 is outside the field's range)
        p = wire.usb_frame(wire.can_id(2, 127250, src, 255), data)
        if b"\xaa\x55" in p[2:]:
            continue
        if checksum is None and p[-1] != 0xAA:
            return p
        if checksum is not None and p[-1] == checksum:
            return p
    raise RuntimeError("cannot build marker-free packet")


def noise(rng, n, kind):
    if kind == "marker_free":
        b = bytearray(rng.randrange(256) for _ in range(n))
        for i in range(len(b) - 1):
            if b[i] == 0xAA and b[i + 1] == 0x55:
                b[i + 1] = 0x54
        if b and b[-1] == 0xAA:
            b[-1] = 0xAB
        if b and b[0] == 0x55:
            b[0] = 0x56
        return bytes(b)
    if kind == "all_aa":
        return b"\xaa" * n                  # a stuck line: the first half of the marker over and over, never the second
    if kind == "aa_at_read_ends":
        # marker-free noise in which every 100-byte read (the noise starts 20 bytes into the stream) ends in 0xAA
        b = bytearray(noise(rng, n, "marker_free"))
        for i in range(len(b)):
            if (20 + i + 1) % 100 == 0:
                b[i] = 0xAA
                if i + 1 < len(b) and b[i + 1] == 0x55:
                    b[i + 1] = 0x54
        if b and b[-1] == 0xAA:
            b[-1] = 0xAB
        return bytes(b)
    if kind == "half_marker_end":
        b = bytearray(noise(rng, max(n, 1), "marker_free"))
        b[-1] = 0xAA
        if len(b) > 1 and b[-2] == 0xAA:
            pass
        return bytes(b)
    if kind == "with_markers":
        b = bytearray(noise(rng, max(n, 4), "marker_free"))
        for _ in range(rng.randint(1, 3)):
            i = rng.randrange(0, len(b) - 1)
            b[i:i + 2] = b"\xaa\x55"
        return bytes(b)
    if kind == "starts_with_55":
        b = bytearray(noise(rng, max(n, 1), "marker_free"))
        b[0] = 0x55                      # second half of a marker, but nothing in front of it belongs to this run
        return bytes(b)
    if kind == "packet_without_first_byte":
        # a packet whose leading 0xAA was lost on the line (optionally cut short as well): 0x55 and the rest of a frame header,
        # data, checksum - no marker anywhere in it
        p = valid_packet(rng, n)[1:]
        return p[:rng.choice([4, 5, 8, 19, 19, 19])]
    if kind == "literal_tail":
        # the tail of a byte string the code under test mentions literally and that begins with 0xAA (a frame header it
        # knows, say), then marker-free noise
        tails = [x[1:] for x in gen.harvested_byte_strings(2, 16) if x[:1] == b"\xaa" and len(x) > 1 and b"\xaa\x55" not in x[1:]] or [b"\x55\x01\x02\x01"]
        t = rng.choice(sorted(tails))
        rest = bytearray(noise(rng, max(n, 1), "marker_free"))
        if t[-1:] == b"\xaa" and rest[0] == 0x55:
            rest[0] = 0x54
        return t + bytes(rest)
    raise ValueError(kind)


def undeliverable_packet(rng):
    """A packet that is perfect on the wire (marker, length, checksum) but yields no message: the decoder refuses its
    payload (out-of-range field), or does not know the PGN. It is consumed like any packet and must leave no trace."""
    for _ in range(5000):
        src = rng.randrange(1, 250)
        r_ = rng.random()
        if r_ < 0.3:
            # a complete two-frame PGN 126208 request: the generated decoder raises a bare Exception (field type not
            # supported) when the second packet completes the message
            body = bytes([0x00, 0x01, 0xF8, 0x01]) + bytes(rng.randrange(1, 250) for _ in range(5))
            fr = wire.fast_frames(body, rng.randrange(8), 0xFF)
            p = b"".join(wire.usb_frame(wire.can_id(3, 126208, src, 255), f) for f in fr)
            if b"\xaa\x55" not in p[2:20] and b"\xaa\x55" not in p[22:] and p[19] != 0xAA and p[-1] != 0xAA:
                return p
            continue
        if r_ < 0.7:
            p = wire.usb_frame(wire.can_id(2, 127250, src, 255), b"\xfd" * 8)          # heading out of range: decode raises
        else:
            p = wire.usb_frame(wire.can_id(2, 130999, src, 255), bytes(rng.randrange(256) for _ in range(8)))    # unknown PGN
        if b"\xaa\x55" not in p[2:] and p[-1] != 0xAA:
            return p
    raise RuntimeError("cannot build packet")


def build_stream(rng, n_segments, max_noise):
    segs = []          # (kind, bytes)
    k = 0
    while len(segs) < n_segments:
        r = rng.random()
        if r < 0.55:
            if rng.random() < 0.12:
                # a packet ending in 0xAA directly followed by noise starting with 0x55
                segs.append(("V", valid_packet(rng, k, checksum=0xAA)))
                nk = rng.choice(["starts_with_55", "starts_with_55", "packet_without_first_byte", "literal_tail"])
                segs.append(("N:" + nk, noise(rng, rng.choice([1, 2, 5, 30, 100]), nk)))
            else:
                segs.append(("V", valid_packet(rng, k)))
            k += 1
        elif r < 0.61:
            segs.append(("U", undeliverable_packet(rng)))
        elif r < 0.69:
            p = bytearray(valid_packet(rng, k))
            how = rng.randrange(4)
            if how == 0:
                p[19] ^= rng.randrange(1, 256)            # only the checksum byte is wrong: the payload would decode perfectly
            elif how == 1 and p[19] != 0:
                p[19] = 0x00                              # a carried checksum of zero (a line fault that zeroes the tail)
            elif how == 2:
                p[rng.randrange(10, 12)] ^= rng.choice([1, 2, 4])      # a small change in the data: still a plausible reading
            else:
                p[rng.randrange(10, 20)] ^= rng.randrange(1, 256)
            if b"\xaa\x55" in bytes(p[2:]) or p[-1] == 0xAA:
                continue
            segs.append(("C", bytes(p)))
        elif r < 0.77:
            p = valid_packet(rng, k)
            cut = rng.randrange(2, 20)
            segs.append(("T", p[:cut]))
        else:
            kind = rng.choice(["marker_free", "marker_free", "half_marker_end", "with_markers", "packet_without_first_byte", "literal_tail"])
            n = rng.choice([1, 2, 3, 19, 20, 21, 99, 100, 101, rng.randint(1, max_noise)])
            segs.append(("N:" + kind, noise(rng, n, kind)))
    # always end with two valid packets so that recovery is observable
    segs += [("V", valid_packet(rng, k)), ("V", valid_packet(rng, k + 1))]
    return segs


def ground_truth(segs):
    """-> (stream, required windows (offsets), set of all marker-led valid windows)."""
    stream = b"".join(b for _, b in segs)
    # where do markers really start?
    marks = set()
    i = stream.find(b"\xaa\x55")
    while i != -1:
        marks.add(i)
        i = stream.find(b"\xaa\x55", i + 1)
    required = []
    damaged = 0
    sync = True
    consumed_prev = False      # the previous segment was a whole packet consumed in sync (its bytes are gone)
    pos = 0
    for kind, b in segs:
        end = pos + len(b)
        if kind in ("V", "U"):
            if sync:
                if kind == "V":
                    required.append(pos)
                consumed_prev = True
            else:
                consumed_prev = False
            sync = True
        elif kind == "C":
            damaged += 1
            # full-length, marker-free body: consumed as one window when in sync, harmless noise otherwise
            consumed_prev = sync
            if any(m in marks for m in range(pos + 1, end)):
                sync = False
                consumed_prev = False
        else:
            damaged += 1
            # a marker starting inside this region (or straddling its end) makes it harmful; a 0xAA that ended a
            # packet consumed in sync cannot pair with this region's first byte
            harmful = any(pos <= m < end for m in marks)
            straddle_before = (pos - 1) in marks and not consumed_prev
            if kind == "T" or harmful or straddle_before:
                sync = False
            consumed_prev = False
        pos = end
    windows = set()
    for m in marks:
        w = stream[m:m + 20]
        if len(w) == 20 and wire.usb_checksum(w) == w[19]:
            windows.add(m)
    return stream, required, windows, damaged


def retained_bytes(client):
    """Sum of lengths of bytes-like objects reachable from the client's own attributes, excluding the
    stream objects, codecs, queue, locks, tasks, callbacks and loggers (recognised by type, not by name)."""
    import logging
    skip_types = (asyncio.StreamReader, asyncio.StreamWriter, NMEA2000Decoder, NMEA2000Encoder, asyncio.Queue, asyncio.Lock,
                  asyncio.Future, logging.Logger, type(lambda: 0), type(retained_bytes), type(client.state))
    seen = set()

    def walk(o, depth):
        if id(o) in seen or depth > 4:
            return 0
        seen.add(id(o))
        if isinstance(o, (bytes, bytearray, memoryview)):
            return len(o)
        if isinstance(o, skip_types) or o is None or isinstance(o, (int, float, bool, str)):
            return 0
        if isinstance(o, dict):
            return sum(walk(v, depth + 1) for v in o.values())
        if isinstance(o, (list, tuple, set, frozenset, collections.deque)):
            return sum(walk(v, depth + 1) for v in o)
        if hasattr(o, "__dict__") and type(o).__module__.startswith("nmea2000") and o is not client:
            return 0
        return 0
    return sum(walk(v, 0) for v in vars(client).values())


def caller_local_bytes(limit=60):
    """Bytes held in the local variables of the library's frames on the current call stack (called from inside the stream
    reader's read(): the stack is the client's receive path). A chunk list or a partial packet kept in a local is held back
    just like one kept in an attribute."""
    import sys
    total = 0
    seen = set()
    fr = sys._getframe(1)
    while fr is not None and limit > 0:
        limit -= 1
        if (os.sep + "nmea2000" + os.sep) in fr.f_code.co_filename:
            for v in fr.f_locals.values():
                stack = [v]
                while stack:
                    o = stack.pop()
                    if id(o) in seen:
                        continue
                    seen.add(id(o))
                    if isinstance(o, (bytes, bytearray, memoryview)):
                        total += len(o)
                    elif isinstance(o, (list, tuple, collections.deque)) and len(o) < 100000:
                        stack.extend(o)
        fr = fr.f_back
    return total


def run_saturated(stream, chunk):
    """The port never runs dry: the whole stream is available at once (or in large chunks), every read the client issues comes
    back full. What the client holds back is measured every time it comes back for more: (a) bytes handed out minus 20 bytes
    per message that left the receive path, (b) bytes reachable from its attributes and from the locals of its receive task."""
    box = {"held_max": 0, "samples": 0}

    async def scenario(sim):
        sim.lag_unit = 20
        sim.spawn("connect")
        await asyncio.sleep(0.05)
        conn = sim.conns[0]

        def hook(reader):
            box["samples"] += 1
            held = retained_bytes(sim.client) + caller_local_bytes()
            if held > box["held_max"]:
                box["held_max"] = held
        sim.on_read_hook = hook
        for pos in range(0, len(stream), chunk):
            conn.feed(stream[pos:pos + chunk])
            for _ in range(20000):
                r = sim.client.reader
                if r is None or len(getattr(r, "_buffer", b"")) < 4096:
                    break
                await asyncio.sleep(0)
        await asyncio.sleep(2.0)
        sim.on_read_hook = None
        await sim.close_guarded()
    sim, stats = simgw.run_session("waveshare", scenario, max_steps=4_000_000)
    return sim, stats, box


def run_stream(stream, cuts, idle):
    samples = []

    async def scenario(sim):
        sim.spawn("connect")
        await asyncio.sleep(0.05)
        conn = sim.conns[0]
        pos = 0
        for c in cuts + [len(stream)]:
            if c > pos:
                conn.feed(stream[pos:c])
                pos = c
            # quiescent point: let the receive task consume everything it was given
            for _ in range(200):
                await asyncio.sleep(0)
                r = sim.client.reader
                if r is not None and len(getattr(r, "_buffer", b"")) == 0 and not conn._rx_queue:
                    break
            for _ in range(idle):
                await asyncio.sleep(0)
            samples.append(retained_bytes(sim.client))
        await asyncio.sleep(1.0)
        samples.append(retained_bytes(sim.client))
        await sim.close_guarded()
    # every third session a second, untouched serial client lives in the same process (its own port, its own two packets)
    sim, stats = simgw.run_session("waveshare", scenario, max_steps=2_000_000, bystander=(len(stream) + len(cuts)) % 3 == 0)
    return sim, stats, samples


def judge(segs, stream, required, windows, damaged, cuts, sim, stats, samples, acc, label):
    acc.count("sessions")
    acc.count("damaged_regions", damaged)
    acc.cover("segmentations", label)
    for k, _ in segs:
        acc.cover("segment_kinds", k)
    w = {"segments": [[k, (b.hex() if len(b) <= 40 else f"{len(b)} bytes: {b[:16].hex()}..{b[-8:].hex()}")] for k, b in segs][:60],
         "cuts": cuts[:40], "segmentation": label}
    if stats["error"] or sim is None:
        acc.inconclusive_because(f"simulator: {stats['error']}")
        return
    acc.case((stream[:4096], len(stream), tuple(cuts[:200])) if (damaged and len(required) >= 2) else None)
    simgw.judge_bystander(sim, acc, w)
    # delivered messages -> window offsets, in stream order
    dec = NMEA2000Decoder()
    win_proj = {}
    for m in sorted(windows):
        try:
            r = dec.decode_usb(stream[m:m + 20])
        except Exception:  # noqa: BLE001
            r = None
        if r is not None:
            win_proj.setdefault(project.msg_proj(r), []).append(m)
    delivered_offsets = []
    last = -1
    for msg in sim.received:
        offs = win_proj.get(project.msg_proj(msg))
        if not offs:
            acc.violation("delivered-message-is-not-a-valid-window-of-the-stream",
                          f"a delivered message (src {msg.source}) is not the decode of any marker-led 20-byte window with a valid checksum", w)
            return
        nxt = next((o for o in offs if o > last), None)
        if nxt is None:
            acc.violation("message-delivered-twice-or-out-of-order", f"message (src {msg.source}) delivered again or out of stream order", w)
            return
        delivered_offsets.append(nxt)
        last = nxt
    missing = [o for o in required if o not in delivered_offsets]
    if missing:
        first = missing[0]
        # what damaged region precedes it?
        pos = 0
        prev = "start"
        for k, b in segs:
            if pos == first:
                break
            prev = k
            pos += len(b)
        key = "clean-packet-lost:" + ("after-packet" if prev in ("V", "start") else "after-corrupted-packet" if prev == "C" else "after-marker-free-noise")
        acc.violation(key, f"{len(missing)} required clean packet(s) not delivered; first at offset {first} (preceded by segment {prev})", dict(w, missing=missing[:10]))
    else:
        acc.count("required_packets_delivered", len(required))
        if damaged and len(segs) < 30:
            acc.sample({"segments": [[k, len(b)] for k, b in segs], "segmentation": label, "cuts": cuts[:12], "required_packet_offsets": required[:12],
                        "delivered_window_offsets": delivered_offsets[:12], "max_retained_bytes": max(samples) if samples else 0}, cap=6)
    acc.count("retained_bytes_samples", len(samples))
    worst = max(samples) if samples else 0
    acc.cover("max_retained_bucket", (worst // 32) * 32)
    if worst > BOUND:
        big_noise = max((len(b) for k, b in segs if k.startswith("N")), default=0)
        key = "buffer-grows-with-noise" + (":marker-free" if any(k == "N:marker_free" and len(b) > BOUND for k, b in segs) else "")
        acc.violation(key, f"client retains {worst} bytes at a quiescent point (bound {BOUND}); longest noise run {big_noise} bytes", dict(w, retained_samples=samples[:30]))


def conformance_pty(spec, acc):
    """Keeps the simulator honest for the serial client: the same damaged streams over a real pseudo-terminal
    (pyserial + serial_asyncio on the ordinary event loop, real time). Order-level comparison with the simulated
    run; a disagreement is reported as a note / counter, never as a property verdict."""
    import fcntl
    import os
    import pty
    import tty
    from nmea2000.ioclient import WaveShareNmea2000Gateway
    rng = gen.rng_for(spec["seed"], ID, spec["name"])

    async def one(stream, chunks):
        m, sl = pty.openpty()
        try:
            tty.setraw(m)
            tty.setraw(sl)
            fcntl.fcntl(m, fcntl.F_SETFL, os.O_NONBLOCK)
            got = []
            c = WaveShareNmea2000Gateway(os.ttyname(sl))

            async def cb(msg):
                got.append(project.msg_proj(msg))
            c.set_receive_callback(cb)
            await asyncio.wait_for(c.connect(), 5)
            await asyncio.sleep(0.05)
            try:
                os.read(m, 4096)           # the configuration packet
            except BlockingIOError:
                pass
            for ch in chunks:
                off = 0
                while off < len(ch):
                    try:
                        off += os.write(m, ch[off:off + 512])
                    except BlockingIOError:
                        await asyncio.sleep(0.005)
                await asyncio.sleep(0.002)
            await asyncio.sleep(0.4)
            retained = retained_bytes(c)
            await asyncio.wait_for(c.close(), 5)
            return got, retained
        finally:
            os.close(m)
            os.close(sl)

    for rep in range(3 if spec["tier"] == "quick" else 12):
        segs = build_stream(rng, rng.randint(6, 16), 400)
        stream, required, windows, damaged = ground_truth(segs)
        cuts = sorted(rng.sample(range(1, len(stream)), min(len(stream) - 1, rng.randint(1, 12))))
        chunks = [stream[a:b] for a, b in zip([0] + cuts, cuts + [len(stream)])]
        sim, stats, samples = run_stream(stream, cuts, 0)
        want = [project.msg_proj(x) for x in sim.received] if sim is not None and not stats["error"] else None
        import signal
        from ..vloop import StepStalled

        def _alarm(signum, frame):
            raise StepStalled()
        old_ = signal.signal(signal.SIGALRM, _alarm)
        signal.setitimer(signal.ITIMER_REAL, 60.0)      # a real event loop: a callback that never returns would hang it for good
        try:
            got, retained = asyncio.run(asyncio.wait_for(one(stream, chunks), 30))
        except StepStalled:
            acc.inconclusive_because("simulator: loop-step-stalled (real serial path over a pty: the receive path did not return within 60 s)")
            break
        except Exception as e:  # noqa: BLE001
            acc.note(f"pty conformance run could not be completed: {type(e).__name__}: {e}")
            continue
        finally:
            signal.setitimer(signal.ITIMER_REAL, 0)
            signal.signal(signal.SIGALRM, old_)
        acc.count("pty_conformance_runs")
        acc.case(None)
        if want is None or got != want:
            acc.count("pty_conformance_mismatches")
            acc.note(f"pty conformance: real serial path delivered {len(got)} messages, simulator {None if want is None else len(want)}")
        else:
            acc.count("pty_conformance_messages_equal", len(got))
        if retained > BOUND:
            acc.note(f"pty conformance: {retained} bytes retained on the real serial path")


def run_shard(spec, acc):
    rng = gen.rng_for(spec["seed"], ID, spec["name"])
    quick = spec["tier"] == "quick"
    if spec["what"] == "conformance_pty":
        return conformance_pty(spec, acc)
    if spec["what"] == "long_noise":
        # a packet is cut by the loss of the link, and the loss is noticed by the WRITE side (the flush of a send() fails, the read
        # side stays silent); the client opens the port again: the stream on the new link is a clean stream - every packet of it
        # is delivered, the first one included
        from .c13 import make_send_message
        for rep in range(8 if quick else 80):
            first = [valid_packet(rng, k) for k in range(2)]
            cut_at = rng.randrange(1, 20)
            second = [valid_packet(rng, 10 + k) for k in range(4)]

            async def scenario(sim, first=first, cut_at=cut_at, second=second, rep=rep):
                sim.spawn("connect")
                await asyncio.sleep(0.05)
                c0 = sim.conns[0]
                c0.feed(b"".join(first) + valid_packet(rng, 5)[:cut_at])
                await asyncio.sleep(0.3)
                if rep % 2:
                    c0.drain_fails = 0
                else:
                    c0.fail_write_after = 0
                    c0.fail_exc = simgw.link_loss("waveshare", write=True)
                sim.spawn("send", make_send_message("waveshare"))
                for _ in range(6000):
                    if len(sim.conns) > 1 and sim.client.state.name == "CONNECTED":
                        break
                    await asyncio.sleep(0.01)
                await asyncio.sleep(0.1)
                if len(sim.conns) > 1:
                    sim.conns[-1].feed(b"".join(second))
                await asyncio.sleep(1.0)
                await sim.close_guarded()
            sim, stats = simgw.run_session("waveshare", scenario)
            acc.count("sessions")
            acc.count("sessions_reconnected_after_a_failing_send_mid_packet")
            if stats["error"] or sim is None:
                acc.inconclusive_because(f"simulator: {stats['error']}")
                continue
            if len(sim.conns) < 2:
                continue                      # (no reconnection: C13 / C19 judge that)
            want_ = [p[5] for p in first + second]            # source address = low byte of the identifier
            got_ = [m.source for m in sim.received]
            acc.case(("send-failure-mid-packet", rep, cut_at))
            if got_ != want_:
                acc.violation("clean-packet-lost:on-the-connection-after-a-failed-send", f"the link is lost {cut_at} bytes into a packet (noticed by a failing "
                              f"{'flush' if rep % 2 else 'write'} of a send), the port is opened again: delivered sources {got_}, sent {want_}",
                              {"cut_at": cut_at, "variant": "drain" if rep % 2 else "write", "delivered": got_, "sent": want_})
        # a client that builds the network map, whose application registers the receive callback a moment AFTER connect(): the
        # devices' address claims arrive in the very first reads, nobody is listening yet; every packet that follows the
        # registration is delivered (the claims were seen by the client's decoder all the same)
        from .c13 import claim_packet
        for rep in range(4 if quick else 40):
            srcs = [10 + rep, 40 + rep, 90 + rep]
            pks = []
            for k in range(12):
                p_ = bytearray(valid_packet(rng, k))
                p_[5] = srcs[k % 3]
                p_[19] = wire.usb_checksum(bytes(p_))
                if b"\xaa\x55" in bytes(p_[2:]) or p_[19] == 0xAA:
                    continue
                pks.append(bytes(p_))

            async def scenario(sim, srcs=srcs, pks=pks):
                sim.spawn("connect")
                await asyncio.sleep(0.05)
                sim.client.set_receive_callback(None)
                c0 = sim.conns[0]
                c0.feed(b"".join(claim_packet("waveshare", s_) for s_ in srcs))
                await asyncio.sleep(0.3)
                sim.client.set_receive_callback(sim._styled(sim._on_receive))
                c0.feed(b"".join(pks))
                await asyncio.sleep(1.0)
                await sim.close_guarded()
            sim, stats = simgw.run_session("waveshare", scenario, client_kwargs={"build_network_map": True})
            acc.count("sessions")
            acc.count("mapping_sessions_with_late_callback_registration")
            if stats["error"] or sim is None:
                acc.inconclusive_because(f"simulator: {stats['error']}")
                continue
            got_ = [m.source for m in sim.received if m.PGN != 60928]
            acc.case(("late-registration", rep, len(pks)))
            if got_ != [p_[5] for p_ in pks]:
                acc.violation("clean-packet-lost:after-late-callback-registration", f"network map on, claims of {srcs} arrive before the application registers its callback: "
                              f"{len(got_)} of {len(pks)} packets sent after the registration were delivered", {"delivered": got_, "sent": [p_[5] for p_ in pks]})
        # a saturated port: thousands of valid packets (or packets after a flood of noise) with never a short read
        for n_pk, chunk in ([(3000, 1 << 20), (1500, 4096)] if quick else [(3000, 1 << 20), (30000, 1 << 22), (8000, 4096), (8000, 1000)]):
            for flood in (0, 50_000):
                pks = [valid_packet(rng, k) for k in range(n_pk)]
                stream = (noise(rng, flood, "marker_free") if flood else b"") + b"".join(pks)
                sim, stats, box = run_saturated(stream, chunk)
                acc.count("sessions")
                acc.count("saturated_port_sessions")
                if stats["error"] or sim is None:
                    acc.inconclusive_because(f"simulator: {stats['error']}")
                    continue
                w = {"packets": n_pk, "noise_before": flood, "feed_chunk": chunk, "reads_sampled": box["samples"], "held_max": box["held_max"],
                     "lag_max": getattr(sim, "lag_max", 0) - flood, "delivered": len(sim.received)}
                acc.count("retained_bytes_samples", box["samples"])
                acc.case(("saturated", n_pk, chunk, flood))
                acc.cover("max_retained_bucket", (box["held_max"] // 32) * 32)
                if len(sim.received) < n_pk - (1 if flood else 0):
                    acc.violation("clean-packet-lost:saturated-port", f"{n_pk} valid packets on a port that never runs dry: {len(sim.received)} delivered", w)
                if box["held_max"] > 4 * BOUND:
                    acc.violation("buffer-grows-with-noise:saturated-port", f"while the port never runs dry the client holds {box['held_max']} bytes (attributes and locals of its "
                                  f"receive task; bound {4 * BOUND})", w)
                if not flood and getattr(sim, "lag_max", 0) > 4 * BOUND + 100:
                    acc.violation("buffer-grows-with-noise:saturated-port", f"while the port never runs dry the client has taken {sim.lag_max} bytes more than the messages it "
                                  f"passed on account for (bound {4 * BOUND + 100}): it is holding them back", w)
        for n in ([1000, 20000, 100000] if quick else [1000, 20000, 100000, 400000, 1000000]):
            for kind in ("marker_free", "half_marker_end", "all_aa", "aa_at_read_ends"):
                segs = [("V", valid_packet(rng, 1)), ("N:" + kind, noise(rng, n, kind)), ("V", valid_packet(rng, 2)), ("V", valid_packet(rng, 3))]
                stream, required, windows, damaged = ground_truth(segs)
                cuts = list(range(100, len(stream), 100))         # what a 100-byte read loop sees
                sim, stats, samples = run_stream(stream, cuts, 0)
                judge(segs, stream, required, windows, damaged, cuts, sim, stats, samples, acc, f"100-byte reads, noise {n}")
        acc.sample({"kind": "long_noise"})
        return
    if spec["what"] == "long_damaged":
        # one client instance, hundreds of segments with many corrupted / truncated packets: behaviour must not
        # depend on how many bad packets the same client has already seen
        for rep in range(2 if quick else 6):
            segs = []
            k = 0
            for j in range(150 if quick else 500):
                r = rng.random()
                if r < 0.45:
                    segs.append(("V", valid_packet(rng, k)))
                    k += 1
                elif r < 0.85:
                    p = bytearray(valid_packet(rng, k))
                    p[rng.randrange(10, 20)] ^= rng.randrange(1, 256)
                    if b"\xaa\x55" in bytes(p[2:]) or p[-1] == 0xAA:
                        continue
                    segs.append(("C", bytes(p)))
                elif r < 0.93:
                    segs.append(("T", valid_packet(rng, k)[:rng.randrange(2, 20)]))
                else:
                    segs.append(("N:marker_free", noise(rng, rng.randint(1, 40), "marker_free")))
            segs += [("V", valid_packet(rng, k)), ("V", valid_packet(rng, k + 1))]
            stream, required, windows, damaged = ground_truth(segs)
            for label, cuts in (("reads_of_100", list(range(100, len(stream), 100))), ("reads_of_7", list(range(7, len(stream), 7)))):
                sim, stats, samples = run_stream(stream, cuts, 0)
                judge(segs, stream, required, windows, damaged, cuts, sim, stats, samples, acc, "long_damaged/" + label)
        return
    if spec["what"] == "allcuts":
        segs = [("V", valid_packet(rng, 1)), ("N:marker_free", noise(rng, 5, "marker_free")), ("V", valid_packet(rng, 2)),
                ("T", valid_packet(rng, 3)[:9]), ("V", valid_packet(rng, 4)), ("V", valid_packet(rng, 5)),
                ("N:half_marker_end", noise(rng, 3, "half_marker_end")), ("V", valid_packet(rng, 6)),
                ("V", valid_packet(rng, 7, checksum=0xAA)), ("N:starts_with_55", noise(rng, 4, "starts_with_55")),
                ("V", valid_packet(rng, 8)), ("V", valid_packet(rng, 9))]
        stream, required, windows, damaged = ground_truth(segs)
        for c in range(1, len(stream)):
            sim, stats, samples = run_stream(stream, [c], 1)
            judge(segs, stream, required, windows, damaged, [c], sim, stats, samples, acc, "cut_at_every_offset")
        if not quick:
            for a in range(1, len(stream), 3):
                for b in range(a + 1, len(stream), 5):
                    sim, stats, samples = run_stream(stream, [a, b], 0)
                    judge(segs, stream, required, windows, damaged, [a, b], sim, stats, samples, acc, "two_cuts")
        acc.set_exhaustive(f"single cut at every offset of a {len(stream)}-byte damaged stream", True)
        return
    for rep in range(10 if quick else 300):
        segs = build_stream(rng, rng.randint(6, 25), 300 if quick else 5000)
        stream, required, windows, damaged = ground_truth(segs)
        n = len(stream)
        plans = [("all_at_once", [], 0), ("one_byte_at_a_time", list(range(1, n)) if n < 3000 else list(range(1, n, 7)), 0),
                 ("reads_of_100", list(range(100, n, 100)), 0)]
        bounds = []
        pos = 0
        for _, b in segs:
            bounds += [pos + 1, pos + len(b) - 1]
            pos += len(b)
        plans.append(("inside_marker_and_before_checksum", sorted(set(c for c in bounds if 0 < c < n)), 1))
        for _ in range(2 if quick else 6):
            m = rng.randint(1, min(n - 1, 60))
            plans.append(("random", sorted(rng.sample(range(1, n), m)), rng.choice([0, 1, 3])))
        for label, cuts, idle in plans:
            sim, stats, samples = run_stream(stream, cuts, idle)
            judge(segs, stream, required, windows, damaged, cuts, sim, stats, samples, acc, label)
        if rep % 4 == 0:
            acc.sample({"segments": [[k, len(b)] for k, b in segs], "required": len(required), "valid_windows": len(windows)})


def replay(w, acc):
    acc.note("replay: witness lists the segments and cuts; re-run ./check C20")
