"""C10 - PGN include/exclude filters are a pure selection of the unfiltered output."""
from __future__ import annotations

from ..lib import NMEA2000Decoder, PhysicalQuantities
from .. import refdb, gen, hist, project, wire

ID = "C10"
LEVEL = "exploration"
RULE = ("cases = (filter configuration, history): a filtered and an unfiltered real decoder are fed the same frame "
        "history (single frames, fast packets frame by frame, address claims from 3 sources); at every position the "
        "filtered return value must equal the unfiltered one if the statement's predicate permits its PGN/id (numbers "
        "or ids, ids case-insensitive, exclude or include) and None otherwise, including the source identity attached "
        "to later messages; non-trivial = history in which the filter both removed and kept at least one message; "
        "distinct = distinct (configuration, history)")
ASSUMPTIONS = ["predicate taken literally from the statement", "histories keep one fast-packet message at a time per stream (C04 covers the rest)"]
REQUIRED_COUNTERS = ["positions_compared", "messages_kept", "messages_removed"]
SHARD_TIMEOUT = {"quick": 300, "thorough": 3000}


def shards(tier, seed):
    n = 12 if tier == "quick" else 64
    return [{"name": f"cfg-{i}", "i": i, "tier": tier, "seed": seed} for i in range(n)]


def case_variants(s, rng):
    return rng.choice([s, s.lower(), s.upper(), s.swapcase(), s[:1].upper() + s[1:]])


def make_config(pool, rng, k):
    """-> (kwargs, numbers set, ids-lower set, kind)"""
    defs = pool.singles + pool.fasts
    kind = "exclude" if k % 2 == 0 else "include"
    style = ["numbers", "ids", "mixed", "ids", "mixed", "numbers"][k % 6]
    n_entries = rng.choice([0, 1, 1, 1, 2, 2, 3, 4, 8])       # 0: the list names nothing but the address claim
    chosen = rng.sample(defs, min(n_entries, len(defs)))
    entries = []
    nums, ids = set(), set()
    for j, d in enumerate(chosen):
        as_id = style == "ids" or (style == "mixed" and j % 2 == 0)
        if as_id:
            entries.append(case_variants(d.id, rng))
            ids.add(d.id.lower())
        else:
            entries.append(d.pgn)
            nums.add(d.pgn)
    claim_mode = rng.choice(["none", "none", "number", "id", "both"]) if chosen else rng.choice(["number", "id", "both"])
    if claim_mode == "both":
        entries += [60928, case_variants("isoAddressClaim", rng)]
        nums.add(60928)
        ids.add("isoaddressclaim")
    elif claim_mode == "number":
        entries.append(60928)
        nums.add(60928)
    elif claim_mode == "id":
        entries.append(case_variants("isoAddressClaim", rng))
        ids.add("isoaddressclaim")
    if kind == "include" and style == "mixed" and not nums and chosen:
        entries.append(chosen[0].pgn)
        nums.add(chosen[0].pgn)
    rng.shuffle(entries)
    if not chosen:
        style = "claim-only"
    return {f"{kind}_pgns": entries}, nums, ids, kind, style, claim_mode


def co_settings(dbx, rng):
    """Other constructor settings, given alike to the filtered and to the reference decoder: the PGN filter must stay
    a pure selection whatever else is configured."""
    extra = {}
    if rng.random() < 0.6:
        return extra
    if rng.random() < 0.5:
        extra["build_network_map"] = True
    if rng.random() < 0.5:
        extra["preferred_units"] = {PhysicalQuantities.TEMPERATURE: rng.choice(["C", "f"]), PhysicalQuantities.PRESSURE: rng.choice(["bar", "PSI"]),
                                    PhysicalQuantities.ANGLE: "deg", PhysicalQuantities.SPEED: "kts"}
    if rng.random() < 0.5:
        mtab = dbx.lookups["MANUFACTURER_CODE"]
        names = [mtab[x] for x in rng.sample([1851, 1855, 137, 229], rng.randint(1, 2))]
        extra[rng.choice(["exclude_manufacturer_code", "include_manufacturer_code"])] = [case_variants(n, rng) for n in names]
    return extra


def permitted(m, nums, ids, kind):
    hit = m.PGN in nums or m.id.lower() in ids
    return (not hit) if kind == "exclude" else hit


def classify(kind, style, claim_mode, u, entries_has_ids, nums, ids):
    return f"filter-not-pure-selection:{kind}"


def run_shard(spec, acc):
    import os
    import shutil
    from .. import runner
    try:
        return _run_shard(spec, acc)
    finally:
        shutil.rmtree(os.path.join(runner.SCRATCH, f"c10-dump-{os.getpid()}"), ignore_errors=True)


def _run_shard(spec, acc):
    dbx = refdb.db()
    rng = gen.rng_for(spec["seed"], ID, spec["name"])
    quick = spec["tier"] == "quick"
    n_cfg = 150 if quick else 1500
    n_events = 60 if quick else 200
    sources = [11, 22, 33]
    for c in range(n_cfg):
        pool = hist.Pool(dbx, rng, n_single=6, n_fast=4)
        kwargs, nums, ids, kind, style, claim_mode = make_config(pool, rng, c + spec["i"])
        sources = hist.pick_sources(rng, 3)          # other addresses every time, also ones the code mentions literally
        claims = {s: [hist.claim_name(hist.pick_unique_number(rng), rng.choice([1851, 1855, 137, 229]), function=rng.choice([130, 140]),
                                      dev_class=rng.choice([25, 60])) for _ in range(2)] for s in sources}
        # NAMEs of every kind: sub-fields at their 'not available' codes, random bits
        for s_ in sources:
            claims[s_] = claims[s_] + [hist.pick_name(rng)] + ([hist.refused_name(rng)] if s_ == sources[0] else [])
        # two addresses sometimes claim the same NAME (a device that moved to another address)
        if c % 2 == 0:
            shared_name = hist.claim_name(hist.pick_unique_number(rng), rng.choice([1851, 1855, 137, 229]))
            for s_ in rng.sample(sources, 2):
                claims[s_] = claims[s_] + [shared_name]
        jump = False
        events = None
        extra = co_settings(dbx, rng)
        if c % 4 == 1:
            # both decoders also dump - everything, or a list that OVERLAPS the PGN filter (the same numbers / ids named in both)
            import os as _os
            from .. import runner as _runner
            entries_ = list(kwargs.get("exclude_pgns") or kwargs.get("include_pgns") or [])
            extra["dump_to_file"] = _os.path.join(_runner.SCRATCH, f"c10-dump-{_os.getpid()}", f"d{c % 7}.jsonl")
            extra["dump_pgns"] = [] if c % 8 == 1 else rng.sample(entries_, min(len(entries_), rng.randint(1, 3))) + [rng.choice(pool.singles).pgn]
            acc.count("configurations_that_also_dump")
        kwargs.update(extra)
        if extra.get("build_network_map") and rng.random() < 0.6:
            # one source never claims, and half-way through the history the decoder's clock is past the 10-minute
            # discovery window: from then on its traffic is returned - by both decoders alike
            claims[rng.choice(sources)] = []
            jump = True
        events = hist.build_history(pool, rng, sources, n_events, claims, p_same_seq=0.35)
        if c % 3 == 0:
            # the catch-all definitions (ids such as 0x1ef00ManufacturerProprietaryFastPacketAddressed) and a specific
            # variant of the same PGN number travel too, and the filter names one of the catch-all ids or its number
            fb_defs = [d_ for d_ in dbx.defs if d_.fallback and d_.supported and d_.type in ("Single", "Fast") and d_.pgn in (61184, 65280, 126720, 130816)]
            fb = rng.choice(fb_defs)
            extra_events = []
            mno = 100000
            for rep_ in range(4):
                body = bytes([0xFE, 0x07]) + bytes(rng.randrange(256) for _ in range(6 if fb.type == "Single" else rng.randint(4, 20)))     # manufacturer 2046: nobody's
                src_ = rng.choice(sources)
                dst_ = 255 if ((fb.pgn >> 8) & 0xFF) >= 240 else rng.choice([255, 17])
                if fb.type == "Single":
                    extra_events.append([hist.Ev(3, fb.pgn, src_, dst_, body, "single", mno, definition=fb.id)])
                else:
                    fr_ = wire.fast_frames(body, (rep_ * 3 + 1) % 8, 0xFF)
                    extra_events.append([hist.Ev(3, fb.pgn, src_, dst_, f_, "fast", mno, last=(i_ == len(fr_) - 1), definition=fb.id) for i_, f_ in enumerate(fr_)])
                mno += 1
            sib = [d_ for d_ in dbx.by_pgn[fb.pgn] if not d_.fallback and d_.supported and d_.fixed_layout and d_.length]
            for rep_ in range(3):
                if not sib:
                    break
                d_ = rng.choice(sib)
                p_ = dbx.pack(d_, gen.base_raws(d_, rng, dbx))
                if dbx.select(d_.pgn, p_) is not d_:
                    continue
                pb_ = p_.to_bytes(d_.length, "little")
                src_ = rng.choice(sources)
                if d_.type == "Single":
                    extra_events.append([hist.Ev(3, d_.pgn, src_, 255, pb_, "single", mno, definition=d_.id)])
                else:
                    fr_ = wire.fast_frames(pb_, (rep_ * 3 + 2) % 8, 0xFF)
                    extra_events.append([hist.Ev(3, d_.pgn, src_, 255, f_, "fast", mno, last=(i_ == len(fr_) - 1), definition=d_.id) for i_, f_ in enumerate(fr_)])
                mno += 1
            for grp in extra_events:          # whole messages appended at the end: no overlap with the generated streams
                events.extend(grp)
            ent = kwargs[f"{kind}_pgns"]
            if rng.random() < 0.7:
                ent.append(case_variants(fb.id, rng))
                ids.add(fb.id.lower())
            else:
                ent.append(fb.pgn)
                nums.add(fb.pgn)
            acc.count("configurations_naming_a_catch_all_definition")
        if jump and rng.random() < 0.7:
            # often the first thing heard from the silent source is something the filter removes by number
            quiet = [s_ for s_ in sources if not claims[s_]]
            k = next((i for i, e in enumerate(events) if e.tag == "single" and e.src in quiet and ((e.pgn in nums) == (kind == "exclude")) and (nums or kind == "include")), None)
            if k is not None:
                events.insert(0, events.pop(k))
        try:
            filt = NMEA2000Decoder(**kwargs)
        except Exception as e:  # noqa: BLE001
            acc.violation("filter-constructor-raised", f"{kwargs}: {type(e).__name__}: {e}", {"config": repr(kwargs)})
            continue
        # a second decoder built from the very same argument objects (e.g. after a reconnect) must behave the same
        import copy as _copy
        snapshot = _copy.deepcopy(kwargs)
        try:
            filt2 = NMEA2000Decoder(**kwargs)
        except Exception as e:  # noqa: BLE001
            acc.violation("filter-constructor-raised", f"{kwargs} (second construction): {type(e).__name__}: {e}", {"config": repr(kwargs)})
            continue
        if kwargs != snapshot:
            acc.violation("constructor-mutates-caller-list", f"filter list changed from {snapshot} to {kwargs} by constructing decoders", {"config": repr(snapshot)})
        plain = NMEA2000Decoder(**_copy.deepcopy(extra))
        acc.cover("co_settings", "+".join(sorted(extra)) or "none")
        kept = removed = 0
        bad = None
        import contextlib
        from ..lib import decoder_clock_box
        stack = contextlib.ExitStack()
        clock = stack.enter_context(decoder_clock_box()) if jump else None
        if jump:
            acc.count("histories_with_clock_past_discovery_window")
        # without a moving clock the unfiltered decoder sees the whole history first (a filtered decoder living in the
        # same process must not be able to influence it), and it is held against the history's ground truth: every
        # single frame and every completed fast-packet message that was sent is returned
        pre = None
        if not jump:
            pre = [hist.safe_feed(plain, ev) for ev in events]
            if not extra:
                for pos, (ev, (ku, u)) in enumerate(zip(events, pre)):
                    if ku == "ok" and u is None and (ev.tag in ("single", "claim") or ev.last):
                        acc.violation("unfiltered-decoder-silent-on-a-sent-message", f"an unfiltered decoder without any other setting returned nothing for a complete {ev.definition} "
                                      f"message at position {pos} (other decoders with filters {snapshot} live in the same process)", {"config": repr(snapshot), "position": pos})
                        break
                acc.count("reference_outputs_checked_against_ground_truth")
        for pos, ev in enumerate(events):
            if jump:
                # the decoder's clock moves on between frames (0 to 3 minutes at a time): the discovery window ends
                # somewhere inside the history
                clock["offset"] += rng.choice([0.0, 0.5, 20.0, 60.0, 180.0])
            ku, u = hist.safe_feed(plain, ev) if pre is None else pre[pos]
            kf, f = hist.safe_feed(filt, ev)
            kf2, f2 = hist.safe_feed(filt2, ev)
            if (kf2, project.msg_proj(f2) if kf2 == "ok" else f2) != (kf, project.msg_proj(f) if kf == "ok" else f):
                acc.violation("second-decoder-from-same-arguments-differs", f"config {snapshot}: a second decoder constructed from the same argument objects returns something else at position {pos}",
                              {"config": repr(snapshot), "position": pos})
                break
            acc.count("positions_compared")
            if ku == "exc" or kf == "exc":
                if ku != kf and not (ku == "exc" and f is None):
                    bad = (pos, "one decoder raised, the other did not", ku, kf)
                    break
                continue
            if u is None:
                want = None
            elif permitted(u, nums, ids, kind):
                want = project.msg_proj(u)
                kept += 1
            else:
                want = None
                removed += 1
            got = project.msg_proj(f)
            if got != want:
                if want is None:
                    why = "filtered-out-message-returned"
                elif got is None:
                    why = "permitted-message-dropped"
                else:
                    why = "content-changed"
                bad = (pos, why, u.PGN if u else None, u.id if u else None)
                break
        stack.close()
        acc.case((repr(kwargs), tuple(tuple(e.brief()) for e in events)) if (kept and removed) else None)
        acc.count("messages_kept", kept)
        acc.count("messages_removed", removed)
        acc.cover("config_styles", f"{kind}/{style}/claim={claim_mode}")
        if bad:
            pos, why, pgn, mid = bad
            is_claim = pgn == 60928
            key = f"{why}:{kind}:{style}" + (":claim" if is_claim else "")
            acc.violation(key, f"config {kwargs}: at position {pos} {why} (PGN {pgn} id {mid})",
                          {"config": repr(kwargs), "position": pos, "events": [e.brief() for e in events[:pos + 1]][-40:]})
        if c % 17 == 0:
            acc.sample({"config": repr(kwargs), "events": len(events), "kept": kept, "removed": removed})


def replay(w, acc):
    acc.note("replay: witness lists the configuration and the events up to the failing position; re-run ./check C10")
