"""C19 - send() writes the encoder's packets contiguously; bad messages are harmless."""
from __future__ import annotations

import asyncio
import copy
import itertools

from ..lib import NMEA2000Decoder, NMEA2000Encoder, NMEA2000Message, encoder_mod, decoder_mod
from .. import refdb, gen, wire, simgw, hist

ID = "C19"
LEVEL = "fault_enumeration"
RULE = ("cases = sessions of a connected real client on the virtual-time loop: 2-4 concurrent send() tasks of single- "
        "and multi-frame messages (each with a unique source address, up to 32 frames through a stub codec) under an "
        "enumerated pattern of the transport's flow control (per write: not paused / paused for n loop steps), or one "
        "unencodable message (missing field, out-of-range field, unknown PGN, format without encoder), or a write that "
        "fails at packet i; the gateway's byte log is parsed by the harness and attributed by source address: every "
        "message's packets must be the encoder's packets, in order, contiguous; unencodable messages must write nothing "
        "and leave state/connection untouched; a failing write must lead to DISCONNECTED and a new connection; "
        "non-trivial = session with at least two concurrent sends and at least one paused write, or a rejected / failed "
        "send; distinct = distinct (client, messages, pause pattern / failure point)")
ASSUMPTIONS = ["flow control is exercised through the real StreamReaderProtocol.pause_writing/resume_writing and StreamWriter.drain()",
               "packets are compared with a fresh encoder's output after normalising the 3-bit sequence counter"]
REQUIRED_COUNTERS = ["sessions", "concurrent_send_sessions", "messages_attributed", "unencodable_sends_checked", "write_failures_checked"]
SHARD_TIMEOUT = {"quick": 400, "thorough": 3000}

STUB_PGN = 130999
SENDERS = ("ebyte", "yd", "waveshare")


def shards(tier, seed):
    out = []
    for kind in SENDERS:
        for part in range(2 if tier == "quick" else 8):
            out.append({"name": f"{kind}-concurrent-{part}", "kind": kind, "what": "concurrent", "part": part, "tier": tier, "seed": seed})
        out.append({"name": f"{kind}-write-failure", "kind": kind, "what": "write_failure", "tier": tier, "seed": seed})
        out.append({"name": f"{kind}-many-sends", "kind": kind, "what": "many", "tier": tier, "seed": seed})
    for kind in simgw.KINDS:
        out.append({"name": f"{kind}-unencodable", "kind": kind, "what": "unencodable", "tier": tier, "seed": seed})
    for kind in ("ebyte", "yd"):
        out.append({"name": f"{kind}-reconnect-during-send", "kind": kind, "what": "reconnect_during_send", "tier": tier, "seed": seed})
    return out


# ---------------------------------------------------------------------------
def install_stub():
    box = {}

    def enc(m):
        return box[m.source]
    names = {f"is_fast_pgn_{STUB_PGN}": (lambda: True), f"encode_pgn_{STUB_PGN}": enc}
    for mod in (encoder_mod, decoder_mod):
        for n, f in names.items():
            setattr(mod, n, f)

    def cleanup():
        for mod in (encoder_mod, decoder_mod):
            for n in names:
                if hasattr(mod, n):
                    delattr(mod, n)
    return box, cleanup


def stub_seam_works(box) -> bool:
    """The stub codec is only usable when the encoder looks codecs up by name; otherwise only real definitions are sent."""
    box[250] = b"\x01\x02\x03\x04\x05\x06\x07\x08\x09"
    try:
        pk = NMEA2000Encoder().encode_ebyte(NMEA2000Message(PGN=STUB_PGN, id="verifStub", priority=3, source=250, destination=255))
        return len(pk) == 2
    except Exception:  # noqa: BLE001
        return False


def long_message(dbx, rng, box, src, nbytes):
    """A multi-frame message from source `src`: the stub codec with an arbitrary payload when the seam is there,
    otherwise a real encodable fast-packet definition of at least 14 bytes."""
    if box.get("_seam", True):
        box[src] = bytes((src * 3 + k) % 256 for k in range(nbytes))
        return NMEA2000Message(PGN=STUB_PGN, id="verifStub", priority=3, source=src, destination=255)
    defs = [d for d in dbx.defs if d.encodable and d.type == "Fast" and (d.length or 0) >= 14 and not any(f.offset is not None for f in d.fields)]
    dec = NMEA2000Decoder()
    for _ in range(50):
        d = rng.choice(defs)
        p = dbx.pack(d, gen.base_raws(d, rng, dbx))
        if dbx.select(d.pgn, p) is not d:
            continue
        try:
            m = dec.decode_basic_string(wire.plain_line(3, d.pgn, src, 255, p.to_bytes(d.length, "little")), already_combined=True)
            NMEA2000Encoder().encode_ebyte(m)
        except Exception:  # noqa: BLE001
            continue
        m.source = src
        return m
    raise RuntimeError("no encodable multi-frame definition available")


def make_messages(dbx, rng, n, box):
    """n messages with unique source addresses; a mix of single-frame, real fast-packet and stub (long) messages."""
    dec = NMEA2000Decoder()
    pool = hist.Pool(dbx, rng, n_single=4, n_fast=6, only_encodable=True)
    msgs = []
    for i in range(n):
        src = 10 + i
        r = rng.random()
        if r < 0.35 and box.get("_seam", True):
            nbytes = rng.choice([7, 13, 14, 50, 100, 223])
            box[src] = bytes((src * 7 + k) % 256 for k in range(nbytes))
            m = NMEA2000Message(PGN=STUB_PGN, id="verifStub", priority=rng.randrange(8), source=src, destination=255)
        else:
            d = rng.choice(pool.fasts if (r < 0.8 and pool.fasts) else pool.singles)
            pb = pool.payload(d)
            m = dec.decode_basic_string(wire.plain_line(3, d.pgn, src, 255, pb), already_combined=True)
            m.source, m.priority = src, rng.randrange(8)
        msgs.append(m)
    # often two different definitions of ONE PGN number are sent by the same client (Fusion / Simnet / Seatalk commands):
    # each must go out in its own layout
    if rng.random() < 0.6:
        multi = [ds for ds in gen.sibling_groups([d for d in dbx.defs if d.encodable and d.fixed_layout and d.length and not d.fallback and d.type in ("Single", "Fast")])]
        if multi:
            ds = rng.choice(multi)
            picks = rng.sample(ds, 2)
            extra = []
            for j, d in enumerate(picks):
                for _ in range(10):
                    p_ = dbx.pack(d, gen.base_raws(d, rng, dbx))
                    if dbx.select(d.pgn, p_) is d:
                        break
                else:
                    continue
                src = 40 + j
                try:
                    m = dec.decode_basic_string(wire.plain_line(3, d.pgn, src, 255, p_.to_bytes(d.length, "little")), already_combined=True)
                except Exception:  # noqa: BLE001
                    continue
                if m is None or m.id != d.id:
                    continue
                m.source, m.priority = src, rng.randrange(8)
                extra.append(m)
            if len(extra) == 2:
                msgs = msgs[:max(0, n - 2)] + extra
                rng.shuffle(msgs)
    return msgs


def parse_log(kind, data: bytes):
    """-> list of (source address, data bytes) per packet, or None if the byte log is not a packet sequence."""
    out = []
    if kind == "ebyte":
        if len(data) % 13:
            return None
        for i in range(0, len(data), 13):
            ident, d = wire.parse_ebyte(data[i:i + 13])
            out.append((ident & 0xFF, d))
    elif kind == "waveshare":
        if len(data) % 20:
            return None
        for i in range(0, len(data), 20):
            p = data[i:i + 20]
            if p[:2] != b"\xaa\x55" or wire.usb_checksum(p) != p[19]:
                return None
            if p[2] == 0x02:
                continue          # the configuration packet the client sends after connecting
            ident, d = wire.parse_usb(p)
            out.append((ident & 0xFF, d))
    else:
        if not data.endswith(b"\r\n") and data:
            return None
        for line in data.split(b"\r\n")[:-1]:
            ident, d = wire.parse_yd_tx(line + b"\r\n")
            out.append((ident & 0xFF, d))
    return out


APP_PGN = 130994          # a PGN neither the database nor the stub codec knows: only the application's own client subclass can send it


def app_subclass(cls):
    """An application's subclass of a gateway client that knows how to send one more PGN: it overrides the client's encoding hook
    and hands that message to the library's framing under another number. For everything else it is the library's client."""
    class AppGateway(cls):
        def _encode_impl(self, m):
            if m.PGN == APP_PGN:
                m2 = copy.copy(m)
                m2.PGN, m2.id = STUB_PGN, "verifStub"
                return super()._encode_impl(m2)
            return super()._encode_impl(m)
    AppGateway.__name__ = cls.__name__
    return AppGateway


def reference_packets(kind, m):
    if m.PGN == APP_PGN:
        m = copy.copy(m)
        m.PGN, m.id = STUB_PGN, "verifStub"
    enc = NMEA2000Encoder()
    pk = {"ebyte": enc.encode_ebyte, "waveshare": enc.encode_usb, "yd": enc.encode_yacht_devices}[kind](copy.deepcopy(m))
    return [d for _, d in parse_log(kind, b"".join(pk))]


def norm(frames, fast):
    if not fast:
        return frames
    return [bytes([f[0] & 0x1F]) + f[1:] for f in frames]


def concurrent_session(kind, msgs, pause_plan, stagger, after_reconnect=False, bystander=False, subclass=None):
    async def scenario(sim):
        sim.spawn("connect")
        await asyncio.sleep(0.1)
        if after_reconnect:
            # the sends happen on the client's second connection (first link lost, reconnected)
            first = sim.conns[-1]
            first.reset(simgw.link_loss(kind))
            for _ in range(3000):
                if len(sim.conns) > 1 and sim.client.state.name == "CONNECTED":
                    break
                await asyncio.sleep(0.01)
            await asyncio.sleep(0.1)
            sim.first_conn_writes = len(first.written)
        conn = sim.conns[-1]
        base = len(conn.written)
        conn.pause_plan = list(pause_plan)
        tasks = []
        for m, gap in zip(msgs, stagger):
            tasks.append(sim.spawn("send", m))
            for _ in range(gap):
                await asyncio.sleep(0)
        await asyncio.wait(tasks, timeout=5000.0)
        await asyncio.sleep(1.0)
        sim.sent_from = base
        await sim.close_guarded()
    return simgw.run_session(kind, scenario, bystander=bystander, subclass=subclass)


def judge_concurrent(sim, stats, kind, msgs, pause_plan, stagger, acc, fast_of, after_reconnect=False):
    acc.count("sessions")
    acc.count("concurrent_send_sessions")
    w = {"client": kind, "messages": [[m.PGN, m.source] for m in msgs], "pause_plan": list(pause_plan)[:40], "stagger": list(stagger)}
    if stats["error"]:
        acc.inconclusive_because(f"simulator: {stats['error']}")
        return
    conn = sim.conns[-1] if after_reconnect else sim.conns[0]
    if after_reconnect:
        acc.count("sessions_sending_on_second_connection")
        w["after_reconnect"] = True
        if len(sim.conns) < 2:
            acc.inconclusive_because(f"{kind}: no second connection was opened in the after-reconnect session (C13 judges recovery)")
            return
        if len(sim.conns[0].written) != sim.first_conn_writes:
            acc.violation("packets-written-to-a-replaced-link", f"{kind}: bytes were written to the first (lost) connection after the reconnect", w)
    log = b"".join(d for _, d in conn.written[sim.sent_from:])
    paused = sum(1 for p in pause_plan if p)
    if any(p < 0 for p in pause_plan):
        acc.count("sessions_with_writes_waiting_in_the_transport_buffer")
    acc.case((kind, tuple((m.PGN, m.source) for m in msgs), tuple(pause_plan), tuple(stagger)) if (len(msgs) >= 2 and paused) else None)
    pk = parse_log(kind, log)
    if pk is None:
        acc.violation("byte-log-not-a-packet-sequence", f"{kind}: bytes written are not a sequence of whole packets", dict(w, log=log.hex()[:1000]))
        return
    order = [s for s, _ in pk]
    w["source_order"] = order[:80]
    # contiguity: each source appears as exactly one run
    runs = [k for k, _ in itertools.groupby(order)]
    if len(runs) != len(set(runs)):
        acc.violation("packets-of-concurrent-sends-interleaved", f"{kind}: packets of concurrent send() calls interleave on the wire (sources in wire order: {runs[:12]}...)", w)
    want_status = ["CONNECTED", "DISCONNECTED", "CONNECTED", "CLOSED"] if after_reconnect else ["CONNECTED", "CLOSED"]
    if sim.status != want_status:
        acc.violation("state-disturbed-by-send", f"{kind}: status trace {sim.status} around plain sends (expected {want_status})", w)
    if paused and len(msgs) <= 4:
        acc.sample({"client": kind, "messages": [[m.PGN, m.source] for m in msgs], "pause_plan": list(pause_plan)[:16], "stagger": list(stagger),
                    "sources_in_wire_order": order[:40], "status_trace": sim.status}, cap=6)
    for m in msgs:
        got = [d for s, d in pk if s == m.source]
        want = reference_packets(kind, m)
        fast = fast_of(m)
        acc.count("messages_attributed")
        if norm(got, fast) != norm(want, fast):
            key = "message-packets-differ-from-encoder"
            if sorted(norm(got, fast)) == sorted(norm(want, fast)):
                key = "message-packets-out-of-order"
            elif len(got) < len(want):
                key = "message-packets-missing"
            acc.violation(key, f"{kind}: PGN {m.PGN} from source {m.source}: {len(got)} packets on the wire, encoder produces {len(want)}", w)
        elif fast and len({f[0] >> 5 for f in got}) != 1:
            acc.violation("mixed-sequence-counter-within-message", f"{kind}: PGN {m.PGN} source {m.source}", w)


def run_concurrent(spec, acc):
    dbx = refdb.db()
    kind = spec["kind"]
    rng = gen.rng_for(spec["seed"], ID, spec["name"])
    quick = spec["tier"] == "quick"
    box, cleanup = install_stub()
    box["_seam"] = stub_seam_works(box)
    if not box["_seam"]:
        acc.note("stub codec seam unavailable: only real definitions are sent, bounded-exhaustive stub part skipped")

    def fast_of(m):
        return m.PGN == STUB_PGN or any(d.type == "Fast" for d in dbx.by_pgn.get(m.PGN, []))
    try:
        # (a) bounded exhaustive: 2 messages of 2-3 frames, every pause/no-pause pattern over the first writes
        for rep in range((2 if quick else 10) if box["_seam"] else 0):
            msgs = []
            for i in range(2):
                src = 10 + i
                box[src] = bytes((src + k) % 256 for k in range(rng.choice([7, 13, 14, 20])))
                msgs.append(NMEA2000Message(PGN=STUB_PGN, id="verifStub", priority=3, source=src, destination=255))
            nwrites = sum(len(reference_packets(kind, m)) for m in msgs)
            for pattern in itertools.product((0, 2), repeat=min(nwrites, 6 if quick else 8)):
                for gap in (0, 1, 3):
                    sim, stats = concurrent_session(kind, msgs, pattern, [gap, 0])
                    judge_concurrent(sim, stats, kind, msgs, pattern, [gap, 0], acc, fast_of)
        acc.set_exhaustive(f"{kind}: 2 concurrent messages x every pause/no-pause pattern over the first 6-8 writes x stagger 0/1/3", True)
        # (b) sampled: 2-4 messages incl. 32-frame ones, random pause lengths
        for rep in range(25 if quick else 1500):
            msgs = make_messages(dbx, rng, rng.randint(2, 4), box)
            plan = [rng.choice([0, 0, 1, 2, 5]) for _ in range(120)]
            if rep % 2:
                # a busy socket below the transport's high-water mark as well (negative: steps the data waits in the buffer while
                # drain() returns at once)
                plan = [rng.choice([0, 0, 1, 2, -2, -6, -15]) for _ in range(120)]
            stagger = [rng.choice([0, 0, 1, 2, 7]) for _ in msgs]
            ar = rep % 3 == 2
            by = rep % 4 == 1
            sim, stats = concurrent_session(kind, msgs, plan, stagger, after_reconnect=ar, bystander=by)
            judge_concurrent(sim, stats, kind, msgs, plan, stagger, acc, fast_of, after_reconnect=ar)
            if by and sim is not None and not stats["error"]:
                # nothing of what the first client sends may show up on the second client's link
                if sim.by_conns and any(len(c.written) > (1 if kind == "waveshare" else 0) for c in sim.by_conns):
                    acc.violation("bytes-written-to-another-clients-link", f"{kind}: a send() on one client wrote to the link of a second client in the same process",
                                  {"client": kind, "messages": [[m.PGN, m.source] for m in msgs]})
                simgw.judge_bystander(sim, acc, {"client": kind, "messages": [[m.PGN, m.source] for m in msgs]})
            if rep % 10 == 0:
                acc.sample({"client": kind, "messages": [[m.PGN, m.source, len(reference_packets(kind, m))] for m in msgs], "pause_plan": plan[:12], "stagger": stagger})
        # (b2) the client is an application's subclass that can send one PGN more than the library (it overrides the encoding
        # hook): its messages are written like any other, alone and next to ordinary ones
        for rep in range((6 if quick else 60) if box["_seam"] else 0):
            msgs = []
            for i in range(rng.randint(1, 3)):
                src = 60 + i
                box[src] = bytes((src + 5 * k) % 256 for k in range(rng.choice([5, 8, 13, 20, 40])))
                msgs.append(NMEA2000Message(PGN=APP_PGN if (i + rep) % 2 == 0 else STUB_PGN, id="appOwn" if (i + rep) % 2 == 0 else "verifStub", priority=3, source=src, destination=255))
            plan = [rng.choice([0, 0, 1, 2]) for _ in range(60)]
            stagger = [rng.choice([0, 1, 3]) for _ in msgs]
            sim, stats = concurrent_session(kind, msgs, plan, stagger, subclass=app_subclass)
            acc.count("sessions_with_an_application_subclass_of_the_client")
            judge_concurrent(sim, stats, kind, msgs, plan, stagger, acc, lambda m_: True)
        # (b3) the same short multi-packet-type message (its payload fits the first frame: one packet) sent again and again, then a
        # long one, one after the other: every message is written whole, and consecutive messages of the stream carry different
        # sequence counters (a receiver drops a first frame whose counter it has just seen)
        for rep in range((4 if quick else 40) if box["_seam"] else 0):
            src = 70 + rep % 5
            box[src] = bytes((rep + 3 * k) % 256 for k in range(rng.randint(1, 5)))
            short = NMEA2000Message(PGN=STUB_PGN, id="verifStub", priority=3, source=src, destination=255)
            n_rep = rng.randint(2, 5)

            async def scenario_rp(sim, short=short, n_rep=n_rep):
                sim.spawn("connect")
                await asyncio.sleep(0.1)
                conn = sim.conns[-1]
                sim.sent_from = len(conn.written)
                for _ in range(n_rep):
                    await sim.call("send", short)          # the very same object, as an application with one message per PGN does
                    await asyncio.sleep(0.05)
                await sim.call("send", copy.deepcopy(short))
                await asyncio.sleep(0.5)
                await sim.close_guarded()
            sim, stats = simgw.run_session(kind, scenario_rp)
            acc.count("sessions")
            acc.count("sessions_repeating_a_one_packet_message")
            if stats["error"] or not sim.conns:
                acc.inconclusive_because(f"simulator: {stats['error']}")
                continue
            pk_ = parse_log(kind, b"".join(d_ for _, d_ in sim.conns[-1].written[sim.sent_from:]))
            w_ = {"client": kind, "repeats": n_rep, "payload_hex": bytes(box[src]).hex()}
            acc.case((kind, "repeat", n_rep, bytes(box[src])))
            if pk_ is None or len(pk_) != n_rep + 1 or any(f_[1:2 + len(box[src])] != bytes([len(box[src])]) + bytes(box[src]) for _, f_ in pk_):
                acc.violation("message-packets-differ-from-encoder", f"{kind}: a one-packet message sent {n_rep + 1} times: the wire carries {None if pk_ is None else len(pk_)} packets / other content", w_)
            else:
                ctrs = [f_[0] >> 5 for _, f_ in pk_]
                if any(a_ == b_ for a_, b_ in zip(ctrs, ctrs[1:])):
                    acc.violation("same-sequence-counter-in-consecutive-messages", f"{kind}: a one-packet message sent {n_rep + 1} times in a row went out with sequence counters {ctrs}: "
                                  "consecutive messages of a stream carry different counters", w_)
        # (c) a sender that stops: the task awaiting send() is cancelled while its message is partly written (parked in
        # drain()), another send() is queued behind it. What was written of the first message stays a prefix; nothing of it
        # may follow once the second message has started, and the second goes out whole.
        for rep in range(12 if quick else 200):
            msgs = make_messages(dbx, rng, 2, box)
            na, nb_ = (len(reference_packets(kind, m_)) for m_ in msgs)
            if na < 3 or kind == "actisense":
                continue
            cancel_after = rng.randint(1, 6)
            first_pause = rng.randint(cancel_after + 1, cancel_after + 6)

            async def scenario_c(sim, msgs=msgs, cancel_after=cancel_after, first_pause=first_pause):
                sim.spawn("connect")
                await asyncio.sleep(0.1)
                conn = sim.conns[-1]
                sim.sent_from = len(conn.written)
                conn.pause_plan = [0] * rng.randint(0, 2) + [first_pause] + [0, 1, 0, 2] * 10
                ta = sim.spawn("send", msgs[0])
                await asyncio.sleep(0)
                tb = sim.spawn("send", msgs[1])
                for _ in range(cancel_after):
                    await asyncio.sleep(0)
                ta.cancel()
                await asyncio.wait([tb], timeout=2000.0)
                await asyncio.sleep(1.0)
                await sim.close_guarded()
            sim, stats = simgw.run_session(kind, scenario_c)
            acc.count("sessions")
            acc.count("cancelled_sender_sessions")
            if stats["error"]:
                acc.inconclusive_because(f"simulator: {stats['error']}")
                continue
            log = b"".join(d for _, d in sim.conns[0].written[sim.sent_from:])
            pk = parse_log(kind, log)
            w = {"client": kind, "messages": [[m_.PGN, m_.source] for m_ in msgs], "cancel_after_steps": cancel_after}
            acc.case((kind, "cancelled-sender", tuple((m_.PGN, m_.source) for m_ in msgs), cancel_after, first_pause))
            if pk is None:
                acc.violation("byte-log-not-a-packet-sequence", f"{kind}: bytes written are not a sequence of whole packets (cancelled sender)", dict(w, log=log.hex()[:600]))
                continue
            order = [s_ for s_, _ in pk]
            sa, sb = msgs[0].source, msgs[1].source
            if sb in order and sa in order[order.index(sb):]:
                acc.violation("packets-of-concurrent-sends-interleaved", f"{kind}: packets of a cancelled send() went out after the next message had started "
                              f"(sources in wire order: {order[:20]})", dict(w, source_order=order[:60]))
            got_b = [d for s_, d in pk if s_ == sb]
            fast_b = fast_of(msgs[1])
            if norm(got_b, fast_b) != norm(reference_packets(kind, msgs[1]), fast_b):
                acc.violation("message-packets-differ-from-encoder", f"{kind}: the message queued behind a cancelled send() was not written whole ({len(got_b)} of {nb_} packets)", w)
            got_a = [d for s_, d in pk if s_ == sa]
            ref_a = reference_packets(kind, msgs[0])
            if norm(got_a, fast_of(msgs[0])) != norm(ref_a[:len(got_a)], fast_of(msgs[0])):
                acc.violation("message-packets-differ-from-encoder", f"{kind}: what was written of the cancelled message is not a prefix of its packets", w)
    finally:
        cleanup()


def run_unencodable(spec, acc):
    dbx = refdb.db()
    kind = spec["kind"]
    rng = gen.rng_for(spec["seed"], ID, spec["name"])
    quick = spec["tier"] == "quick"
    dec = NMEA2000Decoder()
    pool = hist.Pool(dbx, rng, n_single=6, n_fast=6, only_encodable=True)
    bad = []
    good_fast = None
    for d_ in pool.fasts:
        pb_ = pool.payload(d_)
        if pb_ is not None and len(pb_) > 8:
            try:
                good_fast = dec.decode_basic_string(wire.plain_line(3, d_.pgn, 9, 255, pb_), already_combined=True)
                NMEA2000Encoder().encode_ebyte(copy.deepcopy(good_fast))
                break
            except Exception:  # noqa: BLE001
                good_fast = None
    half_ = 3 if quick else 6
    for d in pool.singles[:half_] + pool.fasts[:half_]:          # single-frame and multi-packet definitions alike
        pb = pool.payload(d)
        good = dec.decode_basic_string(wire.plain_line(3, d.pgn, 9, 255, pb), already_combined=True)
        m1 = copy.deepcopy(good)
        m1.fields = m1.fields[:-1] if len(m1.fields) > 1 else []
        bad.append(("missing_field", m1))
        num = next((f for f in d.fields if f.ftype == "NUMBER" and f.match is None), None)
        if num is not None:
            m2 = copy.deepcopy(good)
            f = next(x for x in m2.fields if x.id == num.id)
            f.value = f.raw_value = 1e30
            bad.append(("out_of_range_field", m2))
        m3 = copy.deepcopy(good)
        m3.PGN = 123456
        m3.id = "noSuchDefinition"
        bad.append(("unknown_pgn", m3))
        if kind == "actisense":
            bad.append(("format_without_encoder", copy.deepcopy(good)))
        m4 = copy.deepcopy(good)
        m4.priority = 9
        bad.append(("priority_out_of_range", m4))
        # header values that are missing / of the wrong type (e.g. a message parsed from JSON with nulls)
        m5 = copy.deepcopy(good)
        m5.priority = None
        bad.append(("header_priority_missing", m5))
        if ((d.pgn >> 8) & 0xFF) < 240:          # the destination is part of the identifier only for addressed PGNs
            m6 = copy.deepcopy(good)
            m6.destination = None
            bad.append(("header_destination_missing", m6))
        m7 = copy.deepcopy(good)
        m7.source = "7"
        bad.append(("header_source_wrong_type", m7))
        m8 = copy.deepcopy(good)
        m8.fields[0] = {"id": m8.fields[0].id, "value": 1}
        bad.append(("field_object_wrong_type", m8))
        # messages that are unencodable AND cannot even be rendered (as JSON, as text): values beyond 64 bits, a lone
        # surrogate in a string header, no message object at all
        if num is not None:
            m9 = copy.deepcopy(good)
            f9 = next(x for x in m9.fields if x.id == num.id)
            f9.value = f9.raw_value = 2 ** 70
            bad.append(("field_value_beyond_64_bits", m9))
        m10 = copy.deepcopy(good)
        m10.PGN = 2 ** 70
        bad.append(("pgn_beyond_64_bits", m10))
        m11 = copy.deepcopy(good)
        m11.fields = m11.fields[:-1] if len(m11.fields) > 1 else []
        m11.description = "\ud800"
        bad.append(("missing_field_and_unrenderable_text", m11))
        bad.append(("no_message_object", None))
    for label, m in bad:
        async def scenario(sim, m=m):
            sim.spawn("connect")
            await asyncio.sleep(0.1)
            conn = sim.conns[-1]
            sim.before = (len(conn.written), list(sim.status), len(sim.attempts), sim.client.state.name)
            await sim.call("send", m)
            await asyncio.sleep(15.0)
            sim.after = (len(conn.written), list(sim.status), len(sim.attempts), sim.client.state.name)
            conn.feed(b"")      # no-op
            await sim.close_guarded()
        sim, stats = simgw.run_session(kind, scenario)
        acc.count("sessions")
        acc.count("unencodable_sends_checked")
        acc.case((kind, label, getattr(m, "PGN", None), getattr(m, "id", None)))
        acc.cover("unencodable_kinds", f"{kind}/{label}")
        w = {"client": kind, "label": label, "pgn": getattr(m, "PGN", None), "id": getattr(m, "id", None)}
        if stats["error"]:
            acc.inconclusive_because(f"simulator: {stats['error']}")
            continue
        if any(e["k"] == "ret" and e["name"] == "send" and e.get("exc") for e in sim.trace):
            acc.violation("send-raised-for-unencodable-message", f"{kind}/{label}: send() raised", w)
        if sim.after != sim.before:
            b, a = sim.before, sim.after
            if a[0] != b[0]:
                key = "unencodable-message-wrote-bytes"
            else:
                key = "unencodable-message-disturbed-connection" + (":format-without-encoder" if label == "format_without_encoder" else "")
            acc.violation(key, f"{kind}/{label}: before send (writes, status, attempts, state) = {b}, after = {a}", w)
        # the refused message between two good multi-packet messages: what goes out is exactly what the encoder produces for the two
        # good ones alone, sequence counters included - "as if the bad message had never been given"
        if kind != "actisense" and good_fast is not None:
            async def scenario_sw(sim, m=m):
                sim.spawn("connect")
                await asyncio.sleep(0.1)
                conn = sim.conns[-1]
                sim.sent_from = len(conn.written)
                await sim.call("send", copy.deepcopy(good_fast))
                await sim.call("send", m)
                await sim.call("send", copy.deepcopy(good_fast))
                await asyncio.sleep(1.0)
                await sim.close_guarded()
            sim, stats = simgw.run_session(kind, scenario_sw)
            acc.count("sessions")
            if stats["error"] or not sim.conns:
                acc.inconclusive_because(f"simulator: {stats['error']}")
            else:
                ref_enc = NMEA2000Encoder()
                fn_ = {"ebyte": ref_enc.encode_ebyte, "waveshare": ref_enc.encode_usb, "yd": ref_enc.encode_yacht_devices}[kind]
                want_ = b"".join(fn_(copy.deepcopy(good_fast))) + b"".join(fn_(copy.deepcopy(good_fast)))
                got_ = b"".join(d_ for _, d_ in sim.conns[-1].written[sim.sent_from:])
                acc.count("refused_messages_between_two_good_ones_checked")
                # (the 3-bit sequence counter is left out of the comparison: whether a refused message uses one up is not
                # something the statement fixes - the pinned tree uses one up for an addressed multi-packet message without a
                # destination - and no receiver can tell; identifiers, lengths, data and the order of the packets are compared)
                pg_, pw_ = parse_log(kind, got_), parse_log(kind, want_)
                if pg_ is not None and pw_ is not None:
                    same_ = [(i_, bytes([f_[0] & 0x1F]) + f_[1:]) for i_, f_ in pg_] == [(i_, bytes([f_[0] & 0x1F]) + f_[1:]) for i_, f_ in pw_]
                    counters_ = {f_[0] >> 5 for _, f_ in pg_[:len(pg_) // 2]}, {f_[0] >> 5 for _, f_ in pg_[len(pg_) // 2:]}
                    same_ = same_ and len(counters_[0]) == 1 and len(counters_[1]) == 1 and counters_[0] != counters_[1]
                else:
                    same_ = got_ == want_
                if not same_:
                    acc.violation("unencodable-message-left-a-trace-in-the-next-message", f"{kind}/{label}: good, refused, good: the wire carries {len(got_)} bytes that are not the "
                                  f"encoder's packets for the two good messages alone (first difference at byte {next((i_ for i_, (a_, b_) in enumerate(zip(got_, want_)) if a_ != b_), min(len(got_), len(want_)))})",
                                  dict(w, wire_hex=got_.hex()[:400], expected_hex=want_.hex()[:400]))
        # the same message on a client that was created but never connected: nothing to write on, and still no
        # connection, no state change, no status notification, no exception
        async def scenario_nc(sim, m=m):
            sim.before = (sum(len(c.written) for c in sim.conns), list(sim.status), len(sim.attempts), sim.client.state.name)
            await sim.call("send", m)
            await asyncio.sleep(15.0)
            sim.after = (sum(len(c.written) for c in sim.conns), list(sim.status), len(sim.attempts), sim.client.state.name)
            await sim.close_guarded()
        sim, stats = simgw.run_session(kind, scenario_nc)
        acc.count("sessions")
        acc.count("unencodable_sends_on_unconnected_client")
        if stats["error"]:
            acc.inconclusive_because(f"simulator: {stats['error']}")
            continue
        if any(e["k"] == "ret" and e["name"] == "send" and e.get("exc") for e in sim.trace):
            acc.violation("send-raised-for-unencodable-message", f"{kind}/{label}: send() raised on a client that was never connected", w)
        if sim.after != sim.before:
            acc.violation("unencodable-message-disturbed-connection:never-connected-client",
                          f"{kind}/{label}: client never connected; before send (writes, status, attempts, state) = {sim.before}, after = {sim.after}", w)


def reassemble(frames):
    """Reference fast-packet receiver for ONE stream: list of frame data (first byte = counter << 5 | frame number) -> payloads
    of the messages it completes."""
    out = []
    cur = None          # [counter, total length, {frame number: bytes}]
    for f in frames:
        if not f:
            continue
        ctr, no = f[0] >> 5, f[0] & 0x1F
        if no == 0:
            if cur is not None and cur[0] == ctr and 0 in cur[2]:
                continue                      # a first frame it already has
            if len(f) < 2:
                continue
            cur = [ctr, f[1], {0: f[2:]}]
        else:
            if cur is None or cur[0] != ctr or no in cur[2]:
                continue
            cur[2][no] = f[1:]
        have = b"".join(cur[2][k] for k in sorted(cur[2]))
        if sorted(cur[2]) == list(range(len(cur[2]))) and len(have) >= cur[1]:
            out.append(have[:cur[1]])
            cur = None
    return out


def run_write_failure(spec, acc):
    dbx = refdb.db()
    kind = spec["kind"]
    rng = gen.rng_for(spec["seed"], ID, spec["name"])
    quick = spec["tier"] == "quick"
    box, cleanup = install_stub()
    box["_seam"] = stub_seam_works(box)
    try:
        m = long_message(dbx, rng, box, 40, 40)
        n = len(reference_packets(kind, m))
        done_ = set()
        # (the next message of the same source has another content; with the stub codec the content is looked up by source
        # when the message is encoded)
        box_cut = bytes(box[40]) if box.get("_seam") else None
        box_next = bytes((7 * k + 3) % 256 for k in range(33))
        m_next = m if box.get("_seam") else None
        # one drain() fails while other senders are queued behind it (write direction hiccup, reads silent): the
        # client must still come back CONNECTED on a new link
        others = [long_message(dbx, rng, box, 41 + j, 20) for j in range(2)]
        for i in range(n):
            async def scenario2(sim, i=i):
                sim.spawn("connect")
                await asyncio.sleep(0.1)
                conn = sim.conns[-1]
                conn.drain_fails = i
                conn.pause_plan = [0, 2, 0, 3, 1, 0, 2, 2, 0, 1] * 3
                tasks = [sim.spawn("send", mm) for mm in [m] + others]
                await asyncio.wait(tasks, timeout=2000.0)
                await asyncio.sleep(30.0)
                await sim.close_guarded()
            sim, stats = simgw.run_session(kind, scenario2)
            acc.count("sessions")
            acc.count("write_failures_checked")
            acc.case((kind, "one_drain_failure_with_queued_senders", i))
            if stats["error"]:
                acc.inconclusive_because(f"simulator: {stats['error']}")
                continue
            st = sim.status
            if "DISCONNECTED" in st and (st[-2:] != ["CONNECTED", "CLOSED"] or len(sim.conns) < 2):
                acc.violation("failing-write-not-followed-by-reconnect", f"{kind}: drain failure at packet {i} with two senders queued behind: status {st}, connections {len(sim.conns)}",
                              {"client": kind, "failing_drain": i, "status": st})
            elif "DISCONNECTED" not in st:
                acc.violation("failing-write-not-followed-by-reconnect", f"{kind}: drain failure at packet {i} was not reported (status {st})", {"client": kind, "failing_drain": i, "status": st})
        # the same single failing drain(), but on a client with a past: it lost a link on the read side, somebody called
        # send() while it was waiting to retry (that send fails too and asks for a reconnection that is already under
        # way), and it came back. The failing write on the new link must again be followed by a reconnection.
        for variant in range(4 if quick else 12):
            async def scenario3(sim, variant=variant):
                refusals = [1, 2, 3][variant % 3]
                sim.connect_script = [("accept", 0.001)] + [("refuse", ConnectionRefusedError(111, "refused") if kind != "waveshare" else OSError(2, "No such file or directory"), 0.01)] * refusals
                sim.spawn("connect")
                await asyncio.sleep(0.1)
                sim.conns[-1].reset(simgw.link_loss(kind))
                await asyncio.sleep(0.05 + 0.2 * (variant // 3))
                for _ in range(1 + variant % 2):
                    sim.spawn("send", others[0])              # during the retry wait: nothing to write on
                    await asyncio.sleep(0.02)
                for _ in range(8000):
                    if len(sim.conns) > 1 and sim.client.state.name == "CONNECTED":
                        break
                    await asyncio.sleep(0.01)
                await asyncio.sleep(0.5)
                sim.mark = (len(sim.conns), len(sim.status))
                if len(sim.conns) > 1:
                    sim.conns[-1].drain_fails = 0
                    await sim.call("send", m)
                await asyncio.sleep(40.0)
                await sim.close_guarded()
            sim, stats = simgw.run_session(kind, scenario3)
            acc.count("sessions")
            acc.count("write_failures_checked")
            acc.count("write_failures_after_a_send_during_retry_wait")
            acc.case((kind, "drain_failure_after_send_during_retry_wait", variant))
            if stats["error"]:
                acc.inconclusive_because(f"simulator: {stats['error']}")
                continue
            n_conn, n_stat = getattr(sim, "mark", (0, 0))
            if n_conn < 2:
                acc.count("second_connection_not_opened")       # recovery itself is C13's business
                continue
            later = sim.status[n_stat:]
            if later[:1] != ["DISCONNECTED"] or later[-2:] != ["CONNECTED", "CLOSED"] or len(sim.conns) <= n_conn:
                acc.violation("failing-write-not-followed-by-reconnect", f"{kind}: after a read loss, a send during the retry wait and a recovery, a failing write on the new link gave "
                              f"status {later} and {len(sim.conns) - n_conn} new connection(s)", {"client": kind, "variant": variant, "status": sim.status})
        for i in list(range(n)) + list(range(n)):
            scb_ = "ok" if (i, "ok") not in done_ else "send_on_disconnected"      # second pass: the status callback itself sends
            done_.add((i, scb_))

            async def scenario(sim, i=i):
                sim.spawn("connect")
                await asyncio.sleep(0.1)
                conn = sim.conns[-1]
                conn.fail_write_after = i
                conn.fail_exc = simgw.link_loss(kind, write=True)
                sim.t_send = sim.loop.time()
                t_ = sim.spawn("send", m)
                await asyncio.wait([t_], timeout=60.0)
                sim.send_returned = t_.done()
                await asyncio.sleep(30.0)
                # the application goes on: the next multi-packet message of the same source, on the connection the client has
                # opened meanwhile
                if len(sim.conns) > 1 and sim.client.state.name == "CONNECTED" and m_next is not None:
                    box[40] = box_next
                    t2_ = sim.spawn("send", m_next)
                    await asyncio.wait([t2_], timeout=60.0)
                    if t2_.done():
                        await asyncio.sleep(1.0)
                        sim.next_sent = True
                    else:
                        sim.next_send_hung = True          # (a send() that never returns: reported below)
                await sim.close_guarded()
            sim, stats = simgw.run_session(kind, scenario, status_cb=scb_)
            if box_cut is not None:
                box[40] = box_cut
            if not stats["error"] and getattr(sim, "next_sent", False) and box.get("_seam"):
                # everything that reached the gateway, on the old link and on the new one, as one receiver on the bus sees it: a
                # receiver that follows the fast-packet rules (a first frame with another counter starts over; frames it has are
                # not taken twice) reassembles only payloads somebody sent - the message cut by the failure never completes, the
                # next one does, and nothing else appears
                frames_ = []
                for c_ in sim.conns:
                    pk_ = parse_log(kind, b"".join(d_ for _, d_ in c_.written))
                    frames_ += [f_ for _, f_ in (pk_ or [])]
                got_payloads = reassemble(frames_)
                sent_ = {box_cut, bytes(box_next)}
                acc.count("wire_of_both_connections_reassembled_by_a_reference_receiver")
                if bytes(box_next) not in got_payloads or any(p_ not in sent_ for p_ in got_payloads):
                    acc.violation("receiver-reassembles-a-message-nobody-sent", f"{kind}: write failure at packet {i}, reconnect, next message: a receiver that saw both links "
                                  f"reassembles {[p_.hex()[:24] for p_ in got_payloads]} (sent: cut message {box_cut.hex()[:24]}.., next message {bytes(box_next).hex()[:24]}..)",
                                  {"client": kind, "failing_packet": i})
            if not stats["error"] and getattr(sim, "next_send_hung", False):
                acc.violation("send-never-returns-after-write-failure", f"{kind}: after a write failure at packet {i} and the reconnection, the next send() had not returned 60 virtual s "
                              f"later (status callback: {scb_})", {"client": kind, "failing_packet": i, "status_callback": scb_, "status": sim.status})
            if not stats["error"] and not getattr(sim, "send_returned", True):
                acc.violation("send-never-returns-after-write-failure", f"{kind}: send() whose write failed at packet {i} had not returned 60 virtual s later (status callback: {scb_})",
                              {"client": kind, "failing_packet": i, "status_callback": scb_, "status": sim.status})
            acc.count("sessions")
            acc.count("write_failures_checked")
            acc.case((kind, "write_failure", i))
            w = {"client": kind, "failing_packet": i, "status": sim.status, "attempts": len(sim.attempts)}
            if stats["error"]:
                acc.inconclusive_because(f"simulator: {stats['error']}")
                continue
            st = sim.status
            if st[:3] != ["CONNECTED", "DISCONNECTED", "CONNECTED"] or len(sim.conns) < 2:
                acc.violation("failing-write-not-followed-by-reconnect", f"{kind}: write failure at packet {i}: status {st}, connections {len(sim.conns)}", w)
            if any(a == b for a, b in zip(st, st[1:])):
                acc.violation("status-repeated-after-write-failure", f"{kind}: {st}", w)
    finally:
        cleanup()


def run_reconnect_during_send(spec, acc):
    """A sender is parked in drain() (flow control) when the peer half-closes; the client reconnects and further
    sends start on the new link while the parked sender resumes. On every link the packets of one message must
    stay together (a message cut short by the fault may appear as a head on the old link / a tail on the new one)."""
    dbx = refdb.db()
    kind = spec["kind"]
    rng = gen.rng_for(spec["seed"], ID, spec["name"])
    quick = spec["tier"] == "quick"
    box, cleanup = install_stub()
    box["_seam"] = stub_seam_works(box)
    try:
        for rep in range(40 if quick else 3000):
            nA, nB, nC = rng.choice([20, 27, 50]), rng.choice([13, 20, 40]), rng.choice([7, 13, 27])
            msgs = []
            for src, n in ((10, nA), (11, nB), (12, nC)):
                msgs.append(long_message(dbx, rng, box, src, n))
            park_after = rng.randint(1, 3)            # sender A parks after this many packets
            park_steps = 10 ** 7                     # parked until the scenario resumes the link explicitly
            resume_after = rng.randint(0, 12)         # loop steps between starting the new sends and A's resumption
            eof_delay = rng.randint(0, 6)             # loop steps between parking and the peer's half-close
            new_plan = [rng.choice([0, 2, 4]) for _ in range(40)]
            queue_b_first = rep % 2 == 1

            async def scenario(sim):
                def on_accept(conn):
                    if conn.id >= 1:
                        conn.pause_plan = list(new_plan)
                sim.on_accept.append(on_accept)
                sim.spawn("connect")
                await asyncio.sleep(0.1)
                c0 = sim.conns[0]
                sim.sent_from = len(c0.written)
                c0.pause_plan = [0] * (park_after - 1) + [park_steps]
                sim.spawn("send", msgs[0])
                if queue_b_first:
                    await asyncio.sleep(0)
                    sim.spawn("send", msgs[1])         # queued on the send lock behind the parked sender
                for _ in range(park_after + 2 + eof_delay):
                    await asyncio.sleep(0)
                c0.feed_eof()                          # peer half-closes: our write direction stays usable
                for _ in range(400):
                    if len(sim.conns) >= 2 and sim.status[-1:] == ["CONNECTED"]:
                        break
                    await asyncio.sleep(0.001)         # virtual time must advance for the connect timer to fire
                sim.reconnected_step = sim.loop.steps
                if not queue_b_first:
                    sim.spawn("send", msgs[1])
                for _ in range(rng.choice([0, 1, 3])):
                    await asyncio.sleep(0)
                sim.spawn("send", msgs[2])
                for _ in range(resume_after):
                    await asyncio.sleep(0)
                c0._resume_writing()                   # the old link becomes writable again: A wakes up in drain()
                await asyncio.sleep(30.0)
                await sim.close_guarded()
            sim, stats = simgw.run_session(kind, scenario)
            acc.count("sessions")
            acc.count("reconnect_during_send_sessions")
            w = {"client": kind, "lengths": [nA, nB, nC], "park_after": park_after, "resume_after": resume_after, "eof_delay": eof_delay, "new_plan": new_plan[:12]}
            if stats["error"]:
                acc.inconclusive_because(f"simulator: {stats['error']}")
                continue
            acc.case((kind, "reconnect_during_send", nA, nB, nC, park_after, resume_after, eof_delay, tuple(new_plan)))
            if len(sim.conns) < 2:
                acc.count("no_reconnect_happened_in_session")
                continue
            # once the new link is up, nothing may be written to an older one any more
            late = [e for e in sim.trace if e["k"] == "write" and e["conn"] < len(sim.conns) - 1 and e["s"] > getattr(sim, "reconnected_step", 10 ** 9)]
            if late:
                acc.violation("packets-written-to-a-replaced-link", f"{kind}: {len(late)} packet(s) were written to connection {late[0]['conn']} after connection {len(sim.conns) - 1} had become the client's link",
                              dict(w, queue_b_first=queue_b_first))
            if sim.status.count("CONNECTED") > 2 or len(sim.conns) > 2:
                acc.violation("healthy-link-dropped-after-reconnect", f"{kind}: status {sim.status}, {len(sim.conns)} connections for one link fault", dict(w, queue_b_first=queue_b_first))
            for conn in sim.conns:
                start = sim.sent_from if conn.id == 0 else 0
                log = b"".join(d for _, d in conn.written[start:])
                pk = parse_log(kind, log)
                if pk is None:
                    acc.violation("byte-log-not-a-packet-sequence", f"{kind}: link {conn.id}: bytes written are not whole packets", dict(w, link=conn.id))
                    continue
                order = [s_ for s_, _ in pk]
                runs = [k for k, _ in itertools.groupby(order)]
                acc.count("links_checked")
                if len(runs) != len(set(runs)):
                    acc.violation("packets-interleaved-across-reconnect", f"{kind}: link {conn.id}: packets of different messages interleave after a reconnect (sources in wire order {runs[:10]})",
                                  dict(w, link=conn.id, source_order=order[:60]))
                # what is on a link for one message must be a contiguous slice of the encoder's packets, in order
                for m in msgs:
                    got = norm([d for s_, d in pk if s_ == m.source], True)
                    want = norm(reference_packets(kind, m), True)
                    if len(want) < 2:
                        continue
                    if got and not any(want[i:i + len(got)] == got for i in range(len(want) - len(got) + 1)):
                        acc.violation("message-packets-differ-from-encoder", f"{kind}: link {conn.id}: packets of source {m.source} are not a slice of the encoder's packets", dict(w, link=conn.id))
                    acc.count("messages_attributed")
    finally:
        cleanup()


def run_many(spec, acc):
    """One client instance, ~200 messages in bursts of 1-4 concurrent send() calls under random flow control:
    every message must come out whole, in order and contiguous - however many were sent before."""
    dbx = refdb.db()
    kind = spec["kind"]
    rng = gen.rng_for(spec["seed"], ID, spec["name"])
    quick = spec["tier"] == "quick"
    box, cleanup = install_stub()
    box["_seam"] = stub_seam_works(box)
    if not box["_seam"]:
        acc.note("stub codec seam unavailable: only real definitions are sent, bounded-exhaustive stub part skipped")

    def fast_of(m):
        return m.PGN == STUB_PGN or any(d.type == "Fast" for d in dbx.by_pgn.get(m.PGN, []))
    try:
        for rep in range(2 if quick else 12):
            msgs = []
            for i in range(200):
                box.pop(10 + i % 240, None)
            msgs = make_messages(dbx, rng, 200, box)
            for i, m in enumerate(msgs):
                m.source = 10 + i          # unique attribution
                if m.PGN == STUB_PGN:
                    box[m.source] = bytes((m.source * 5 + k) % 256 for k in range(rng.choice([7, 13, 14, 50, 223])))
            plan = [rng.choice([0, 0, 0, 1, 3]) for _ in range(6000)]

            async def scenario(sim):
                sim.spawn("connect")
                await asyncio.sleep(0.1)
                conn = sim.conns[-1]
                sim.sent_from = len(conn.written)
                conn.pause_plan = list(plan)
                i = 0
                tasks = []
                while i < len(msgs):
                    burst = rng.randint(1, 4)
                    for m in msgs[i:i + burst]:
                        tasks.append(sim.spawn("send", m))
                    i += burst
                    await asyncio.sleep(rng.choice([0.0, 0.001, 0.05]))
                # paused writes resume after N loop *steps*; an otherwise idle loop only steps with the heartbeat, so
                # wait for the senders themselves (bounded in virtual time), not for a fixed period
                await asyncio.wait(tasks, timeout=20000.0)
                sim.all_sends_returned = all(t.done() for t in tasks)
                await sim.close_guarded()
            sim, stats = simgw.run_session(kind, scenario, max_steps=900_000)
            if sim is not None and not stats["error"] and not getattr(sim, "all_sends_returned", False):
                acc.inconclusive_because("many-sends session: senders still pending after 20000 virtual seconds")
                continue
            judge_concurrent(sim, stats, kind, msgs, plan[:40], [0] * 4, acc, fast_of)
            acc.count("many_sends_sessions")
    finally:
        cleanup()


def run_shard(spec, acc):
    if spec["what"] == "many":
        return run_many(spec, acc)
    if spec["what"] == "reconnect_during_send":
        return run_reconnect_during_send(spec, acc)
    {"concurrent": run_concurrent, "unencodable": run_unencodable, "write_failure": run_write_failure}[spec["what"]](spec, acc)


def replay(w, acc):
    acc.note("replay: witness carries client, messages (PGN, source), pause plan and stagger; re-run ./check C19")
