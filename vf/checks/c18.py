"""C18 - preferred-unit conversion rewrites only value and unit of matching quantities."""
from __future__ import annotations

import math

from ..lib import NMEA2000Decoder, PhysicalQuantities
from .. import refdb, gen, wire, project

ID = "C18"
LEVEL = "exploration"
RULE = ("cases = (definition with at least one field that has a physical quantity, payload, preference map): the same "
        "line is decoded by a decoder without and one with preferred_units; every field attribute is compared: fields "
        "of a quantity with a recognised preference must carry the exactly converted value (within half the library's "
        "rounding step) and the requested unit label, raw values / absent values / all other fields and attributes must "
        "be identical; unrecognised preferences must change nothing; non-trivial = at least one field was expected to "
        "be converted and was compared; distinct = distinct (definition, payload, preference map)")
ASSUMPTIONS = ["conversion constants: C = K - 273.15, F = (K - 273.15) * 9/5 + 32, bar = Pa / 1e5, psi = Pa / 6894.757293168, deg = rad * 180/pi, kts = m/s * 3600/1852",
               "rounding steps tolerated: C 0.01, F 1, deg 1, kts 0.1, bar/psi relative 1e-6", "unit label compared case-insensitively with the requested unit"]
REQUIRED_COUNTERS = ["converted_fields_compared", "untouched_fields_compared", "unrecognised_preference_cases"]
SHARD_TIMEOUT = {"quick": 300, "thorough": 3000}

CONV = {
    ("TEMPERATURE", "c"): (lambda k: k - 273.15, 0.005),
    ("TEMPERATURE", "f"): (lambda k: (k - 273.15) * 9 / 5 + 32, 0.5),
    ("PRESSURE", "bar"): (lambda p: p / 100000.0, None),
    ("PRESSURE", "psi"): (lambda p: p / 6894.757293168, None),
    ("ANGLE", "deg"): (lambda r: r * 180.0 / math.pi, 0.5),
    ("SPEED", "kts"): (lambda v: v * 3600.0 / 1852.0, 0.05),
}
# inverse conversions and the library's rounding step, used to aim raw values at rounding ties
INVERSE = {
    "TEMPERATURE": {"c": (lambda c: c + 273.15, 0.01), "f": (lambda f_: (f_ - 32) * 5 / 9 + 273.15, 1.0)},
    "ANGLE": {"deg": (lambda d_: d_ * math.pi / 180.0, 1.0)},
    "SPEED": {"kts": (lambda k_: k_ * 1852.0 / 3600.0, 0.1)},
}
UNRECOGNISED = [("SPEED", "deg"), ("PRESSURE", "f"), ("TEMPERATURE", "bar"), ("ANGLE", "kts"), ("TEMPERATURE", "deg"), ("ANGLE", "c"),
                ("SPEED", "psi"), ("PRESSURE", "kts"), ("POTENTIAL_DIFFERENCE", "deg"), ("LENGTH", "c"), ("ELECTRICAL_CURRENT", "bar"),
                ("ANGULAR_VELOCITY", "deg"), ("TEMPERATURE", "kelvin"), ("TEMPERATURE", "r"), ("ANGLE", "grad"), ("SPEED", "kmh"), ("PRESSURE", "atm"),
                ("LENGTH", "ft"), ("DISTANCE", "nm"), ("VOLUME", "gal"), ("FREQUENCY", "rpm"), ("ELECTRICAL_CURRENT", "ma")]


def shards(tier, seed):
    n = 12 if tier == "quick" else 48
    return [{"name": f"defs-{i}of{n}", "i": i, "n": n, "tier": tier, "seed": seed} for i in range(n)]


def variant(s, rng):
    return rng.choice([s, s.upper(), s.capitalize(), s.swapcase()])


def pref_maps(rng):
    maps = []
    for (q, u) in CONV:
        maps.append(({getattr(PhysicalQuantities, q): variant(u, rng)}, {q: u}))
    # all four at once
    full = {"TEMPERATURE": rng.choice(["c", "f"]), "PRESSURE": rng.choice(["bar", "psi"]), "ANGLE": "deg", "SPEED": "kts"}
    maps.append(({getattr(PhysicalQuantities, q): variant(u, rng) for q, u in full.items()}, dict(full)))
    # recognised + unrecognised mix
    q, u = rng.choice(UNRECOGNISED)
    mixed = dict(full)
    lib = {getattr(PhysicalQuantities, k): variant(v, rng) for k, v in mixed.items()}
    lib[getattr(PhysicalQuantities, q)] = u
    if q in mixed:
        del mixed[q]
    maps.append((lib, mixed))
    for q, u in rng.sample(UNRECOGNISED, 6):
        maps.append(({getattr(PhysicalQuantities, q): variant(u, rng)}, {}))
    # a unit that is valid, but for another quantity, next to a correct preference
    q, u = rng.choice(UNRECOGNISED[:8])
    if q != "TEMPERATURE":
        maps.append(({getattr(PhysicalQuantities, q): variant(u, rng), PhysicalQuantities.TEMPERATURE: "C"}, {"TEMPERATURE": "c"}))
    return maps


def run_shard(spec, acc):
    dbx = refdb.db()
    rng = gen.rng_for(spec["seed"], ID, spec["name"])
    quick = spec["tier"] == "quick"
    # all definitions of a PGN number together (also those without any quantity field: they are what a sibling with
    # convertible fields must not be confused with), decoded on long-lived decoders in interleaved order
    all_defs = [d for d in dbx.defs if d.supported and d.fixed_layout]
    pgns_with_q = sorted({d.pgn for d in all_defs if any(f.pq for f in d.fields)})
    mine = {p for k, p in enumerate(pgns_with_q) if k % spec["n"] == spec["i"]}
    defs = [d for d in all_defs if d.pgn in mine]
    plain = NMEA2000Decoder()
    maps = pref_maps(rng)
    # the decoder works with the preferences it was GIVEN: the application's dictionary is changed right after construction
    # (cleared, then filled with something else) and must not matter any more
    # ... and the other settings of a decoder do not decide whether a message is converted: a dump file (everything / a
    # filter that selects some PGNs of this shard by number or by id / a filter that selects nothing that travels here),
    # a PGN filter that concerns other PGNs
    import os
    import shutil
    from .. import runner
    dump_dir = os.path.join(runner.SCRATCH, f"c18-dump-{os.getpid()}")
    shard_pgns = sorted(mine)
    elsewhere = [d_ for d_ in all_defs if d_.pgn not in mine]
    long_lived = []
    mapping_decoders = set()
    for n_, (lib_map, _) in enumerate(maps):
        given = dict(lib_map)
        co = {}
        kind_ = n_ % 7
        if kind_ == 6:
            co = {"build_network_map": True}          # (the two senders of this check announce themselves right below)
        elif kind_ == 1:
            co = {"dump_to_file": os.path.join(dump_dir, f"all{n_}.jsonl") if quick else "/dev/null"}
        elif kind_ == 2:
            co = {"dump_to_file": os.path.join(dump_dir, f"num{n_}.jsonl"), "dump_pgns": shard_pgns[::2] or [59392]}
        elif kind_ == 3:
            co = {"dump_to_file": os.path.join(dump_dir, "sub", f"ids{n_}.jsonl"), "dump_pgns": [d_.id for d_ in defs[1::3]] or ["isoRequest"]}
        elif kind_ == 4 and elsewhere:
            co = {"dump_to_file": os.path.join(dump_dir, f"none{n_}.jsonl"), "dump_pgns": [rng.choice(elsewhere).pgn, rng.choice(elsewhere).id]}
        elif kind_ == 5 and elsewhere:
            co = {"exclude_pgns": [rng.choice(elsewhere).id, rng.choice(elsewhere).pgn]}
        acc.cover("co_settings_of_decoders_with_preferences", ["none", "dump-everything", "dump-filter-by-number", "dump-filter-by-id", "dump-filter-selects-nothing-here",
                                                               "pgn-filter-on-other-pgns", "network-map"][kind_] if co or kind_ == 0 else "none")
        long_lived.append(NMEA2000Decoder(preferred_units=given, **co))
        if co.get("build_network_map"):
            from .. import hist
            mapping_decoders.add(id(long_lived[-1]))
            for s_ in (4, 7):
                long_lived[-1].decode_basic_string(wire.plain_line(6, 60928, s_, 255, hist.claim_name(900 + s_, 1851, inst_lo=2).to_bytes(8, "little")), already_combined=True)
        given.clear()
        given[PhysicalQuantities.SPEED] = "kts"
        given[PhysicalQuantities.TEMPERATURE] = "f"
        given[PhysicalQuantities.ANGLE] = "deg"
        given[PhysicalQuantities.PRESSURE] = "psi"
    order = []
    for rnd in range(2 if quick else 20):
        shuffled = list(defs)
        rng.shuffle(shuffled)
        order += shuffled
    seen_defs = set()
    for d in order:
        nb = d.length if d.length is not None else (d.total_bits() + 7) // 8
        qfields = [f for f in d.fields if f.pq and f.match is None and f.bits is not None]
        if d.id not in seen_defs and d.fixed_layout:
            # the first message of this kind that every long-lived decoder sees has nothing in it: every field 'not available'
            # (a sensor that has just been switched on). What the decoder learns from it about this kind of message is nothing.
            seen_defs.add(d.id)
            na_ = (1 << (8 * nb)) - 1
            for f_ in d.match_fields:
                na_ = (na_ & ~(f_.mask << f_.off)) | (f_.match << f_.off)
            if dbx.select(d.pgn, na_) is d:
                for dec_ in long_lived:
                    for src_ in (4, 7):
                        try:
                            dec_.decode_basic_string(wire.plain_line(3, d.pgn, src_, 255, na_.to_bytes(nb, "little")), already_combined=True)
                        except Exception:  # noqa: BLE001
                            pass
                acc.count("definitions_first_seen_with_every_field_not_available")
        payloads = []
        near, near_for, near_groups = [], {}, {}
        base = gen.base_raws(d, rng, dbx)
        payloads.append(dbx.pack(d, base))
        for f in qfields:
            for name, u, inr in gen.field_classes(f, rng, 1 if quick else 6, dbx):
                if inr:
                    raws = dict(base)
                    raws[f.order] = u
                    payloads.append(dbx.pack(d, raws))
        for _ in range(2 if quick else 30):
            payloads.append(dbx.pack(d, gen.base_raws(d, rng, dbx)))
        # a key field (instance, source id ...) that is 'not available' while the readings are there: on decoders that build the
        # network map the key goes into the hash - the readings are converted all the same
        pk_na = set()
        for f in d.fields:
            if f.pk and f.match is None and f.bits is not None and f.off is not None and f.ftype in ("NUMBER", "LOOKUP") and qfields:
                raws = dict(base)
                raws[f.order] = f.mask
                p_ = dbx.pack(d, raws)
                payloads.append(p_)
                pk_na.add(p_)
        # raw values whose exact conversion lies right next to a rounding tie of the library's rounding step
        for f in qfields:
            if f.ftype != "NUMBER" or f.pq not in INVERSE:
                continue
            lo, hi = f.raw_bounds()
            for target, (inv, step) in INVERSE[f.pq].items():
                for _ in range(4 if quick else 25):
                    centre = rng.randint(lo, hi) if hi >= lo else 0
                    x = CONV[(f.pq, target)][0](float(f.scaled(centre & f.mask)))
                    tie = (math.floor(x / step) + 0.5) * step          # nearest tie above
                    raw0 = round(inv(tie) / float(f.res))
                    for dr in range(-3, 4):
                        rr = raw0 + dr
                        if lo <= rr <= hi and (rr & f.mask) != f.na_raw():
                            raws = dict(base)
                            raws[f.order] = rr & f.mask
                            near.append(dbx.pack(d, raws))
                            near_for[near[-1]] = (f.pq, target)
                            near_groups.setdefault((f.order, target), {}).setdefault(raw0, []).append(near[-1])
                            acc.count("near_tie_payloads")
        if quick:
            # a fixed share for the readings next to a rounding tie (they are the rare ones a uniform sample misses)
            payloads = payloads[:1] + rng.sample(payloads[1:], min(len(payloads) - 1, 28)) 
            # ... by whole neighbourhoods: two ties of every (field, conversion), each with its seven neighbouring raw values
            for key_ in sorted(near_groups):
                for raw0_ in rng.sample(sorted(near_groups[key_]), min(2, len(near_groups[key_]))):
                    payloads += near_groups[key_][raw0_]
            payloads += sorted(pk_na)
        else:
            payloads += near
        for payload in payloads:
            if dbx.select(d.pgn, payload) is not d:
                continue
            line = wire.plain_line(3, d.pgn, 4, 255, payload.to_bytes(nb, "little"))
            if acc.evaluations % 5 == 0 and qfields:
                # a decoder WITH preferences has just refused a message of this kind (a field out of range): that is its own
                # business - the decoder without preferences, asked next, returns SI values
                fq_ = qfields[acc.evaluations % len(qfields)]
                bad_ = (payload & ~(fq_.mask << fq_.off)) | (((fq_.mask - 1) if not fq_.signed else ((1 << (fq_.bits - 1)) - 2)) << fq_.off)
                for dec_ in long_lived[:3]:
                    try:
                        dec_.decode_basic_string(wire.plain_line(3, d.pgn, 4, 255, bad_.to_bytes(nb, "little")), already_combined=True)
                    except Exception:  # noqa: BLE001
                        acc.count("messages_refused_by_a_decoder_with_preferences_right_before")
            try:
                m0 = plain.decode_basic_string(line, already_combined=True)
            except Exception:  # noqa: BLE001
                continue
            if m0 is None:
                continue
            picks = list(range(len(maps))) if not quick else rng.sample(range(len(maps)), 6)
            if payload in pk_na:
                maps_with_mapping = [mi_ for mi_ in range(len(maps)) if id(long_lived[mi_]) in mapping_decoders]
                picks = maps_with_mapping + [mi_ for mi_ in picks if mi_ not in maps_with_mapping][:2]
                acc.count("payloads_with_an_absent_key_field_on_mapping_decoders")
            if quick and payload in near_for:
                # a reading built next to a rounding tie of one conversion is (also) decoded with preferences that ask for it
                pq_, t_ = near_for[payload]
                asking = [mi_ for mi_ in range(len(maps)) if maps[mi_][1].get(pq_) == t_]
                picks = asking[:3] + [mi_ for mi_ in picks if mi_ not in asking][:2]
            for mi in picks:
                lib_map, want_map = maps[mi]
                # mostly the long-lived decoder of this preference map (it has seen every other definition of the
                # shard before), sometimes a fresh one
                dec = long_lived[mi] if rng.random() < 0.85 else NMEA2000Decoder(preferred_units=lib_map)
                w = {"definition": d.id, "payload_hex": payload.to_bytes(nb, "little").hex(), "preferences": {k.name: v for k, v in lib_map.items()}}
                try:
                    m1 = dec.decode_basic_string(line, already_combined=True)
                except Exception as e:  # noqa: BLE001
                    acc.violation("preferences-make-decode-fail", f"{d.id}: {type(e).__name__}: {e}", w)
                    continue
                if m1 is None or len(m1.fields) != len(m0.fields):
                    acc.violation("preferences-change-message-shape", f"{d.id}: message missing or field count changed", w)
                    continue
                # the very same line once more on the same decoder (instruments repeat their readings all the time): the
                # first result must still stand, and the second must be equal to it
                p1 = project.msg_proj(m1)
                try:
                    m1b = dec.decode_basic_string(line, already_combined=True)
                except Exception as e:  # noqa: BLE001
                    acc.violation("preferences-make-decode-fail", f"{d.id} (same line a second time): {type(e).__name__}: {e}", w)
                    continue
                acc.count("repeated_decodes_compared")
                if project.msg_proj(m1b) != p1 or project.msg_proj(m1) != p1:
                    acc.violation("repeated-payload-converted-differently", f"{d.id}: the same line decoded twice on one decoder with preferences gives different messages "
                                  f"(or the first result changed afterwards)", w)
                    continue
                # the same payload frame by frame through a gateway format (fast packets are reassembled inside the decoder):
                # the preferences apply to it just the same
                if d.type in ("Single", "Fast") and (nb <= 8 if d.type == "Single" else nb <= 223) and acc.evaluations % 2 == 0:
                    ident = wire.can_id(3, d.pgn, 7, 255)
                    frames = [payload.to_bytes(nb, "little")] if d.type == "Single" else wire.fast_frames(payload.to_bytes(nb, "little"), acc.evaluations % 8, 0xFF)
                    mf = None
                    try:
                        for fr in frames:
                            mf = dec.decode_usb(wire.usb_frame(ident, fr)) if acc.evaluations % 4 == 0 else dec.decode_tcp(wire.ebyte_frame(ident, fr))
                    except Exception:  # noqa: BLE001
                        mf = None
                    acc.count("framewise_decodes_compared")
                    pf = project.msg_proj(mf)
                    if pf is None or pf[7] != p1[7]:
                        acc.violation("preferences-not-applied-to-frame-wise-input", f"{d.id}: decoded frame by frame the fields differ from the same payload decoded pre-assembled "
                                      f"on the same decoder", w)
                        continue
                if project.msg_proj(m0)[:7] != project.msg_proj(m1)[:7] or (m0.hash != m1.hash and id(dec) not in mapping_decoders):
                    acc.violation("preferences-change-header", f"{d.id}: header/hash changed by preferences", w)
                n_conv = 0
                for f0, f1, fd in zip(m0.fields, m1.fields, d.fields):
                    target = want_map.get(fd.pq) if fd.pq else None
                    a, b = project.field_proj(f0), project.field_proj(f1)
                    if target is None:
                        acc.count("untouched_fields_compared")
                        if a != b:
                            key = "unrecognised-preference-changed-field" if not want_map else "unrelated-field-changed"
                            acc.violation(key, f"{d.id}.{fd.id}: {a} became {b}", dict(w, field=fd.id))
                        continue
                    # everything except value and unit identical
                    if (a[0], a[1], a[4], a[5], a[6], a[7]) != (b[0], b[1], b[4], b[5], b[6], b[7]):
                        what = "raw-value-changed" if a[4] != b[4] else "other-attribute-changed"
                        acc.violation(f"conversion-{what}", f"{d.id}.{fd.id}: {a} became {b}", dict(w, field=fd.id))
                    n_conv += 1
                    acc.count("converted_fields_compared")
                    acc.cover("conversions", f"{fd.pq}->{target}")
                    if f0.value is None:
                        if f1.value is not None:
                            acc.violation("absent-value-converted", f"{d.id}.{fd.id}: absent became {f1.value!r}", dict(w, field=fd.id))
                    else:
                        fn, half_step = CONV[(fd.pq, target)]
                        exact = fn(float(f0.value))
                        got = f1.value
                        if not isinstance(got, (int, float)) or isinstance(got, bool):
                            acc.violation("converted-value-wrong", f"{d.id}.{fd.id}: {f0.value!r} -> {got!r}", dict(w, field=fd.id))
                        else:
                            tol = (half_step + 1e-9) if half_step is not None else max(1e-6 * abs(exact), 1e-12)
                            if abs(got - exact) > tol:
                                acc.violation(f"converted-value-wrong:{fd.pq}->{target}", f"{d.id}.{fd.id}: {f0.value!r} {f0.unit_of_measurement} -> {got!r}, exact {exact!r}", dict(w, field=fd.id))
                    if (f1.unit_of_measurement or "").lower() != target:
                        acc.violation("unit-label-wrong", f"{d.id}.{fd.id}: label {f1.unit_of_measurement!r} for requested {target!r}", dict(w, field=fd.id))
                if not want_map:
                    acc.count("unrecognised_preference_cases")
                acc.case((d.id, payload, repr(sorted((k.name, v) for k, v in lib_map.items()))) if n_conv else None)
        if len(acc.samples) < 4:
            acc.sample({"definition": d.id, "quantity_fields": [(f.id, f.pq) for f in qfields][:6], "payloads": len(payloads)})
    for dec_ in long_lived:
        dec_.close()
    shutil.rmtree(dump_dir, ignore_errors=True)


def replay(w, acc):
    acc.note("replay: witness carries definition/payload/preferences; re-run ./check C18")
