"""C14 - close() is final and status notifications are faithful."""
from __future__ import annotations

import asyncio

from .. import gen, wire, simgw
from .c13 import packet, make_send_message, refusal_errors

ID = "C14"
LEVEL = "fault_enumeration"
RULE = ("cases = sessions of a real client on the virtual-time loop in which close() is issued at one event-loop step "
        "k, for every k of every session shape (plain connect + traffic, connect against a refusing gateway / retry "
        "wait, connect whose transport takes long, fault + reconnect, slow receive callback, concurrent send, "
        "connect()/send() after close) with a status callback that returns, raises or is slow; monitors: client.state "
        "sampled before every loop iteration, connection attempts and transport closes seen by the gateway, receive "
        "callbacks, task census at quiescence (40 virtual s later), status-callback trace; non-trivial = session in "
        "which close() ran while something was in flight (connect pending, retry wait, connected, callback running) "
        "and all clauses were evaluated; distinct = distinct (client, shape, step, callback mode)")
ASSUMPTIONS = ["quiescence = 40 virtual seconds after close() returned", "status trace must contain every sampled state change in order and never the same state twice in a row"]
REQUIRED_COUNTERS = ["sessions", "close_injected", "state_samples_after_close", "status_traces_checked"]
SHARD_TIMEOUT = {"quick": 400, "thorough": 3000}

SHAPES = ("plain", "refusing", "slow_transport", "fault_reconnect", "slow_receive_cb", "send", "after_close_calls",
          "send_fault_read_silent", "send_write_error", "double_close", "double_connect", "never_connected", "callbacks_replaced", "send_peer_stopped_reading", "busy_reply_while_closing")


def shards(tier, seed):
    out = []
    for kind in simgw.KINDS:
        # close() called from inside the status callback when the first loss is reported
        out.append({"name": f"{kind}-fault_reconnect-close_on_disconnected", "kind": kind, "shape": "fault_reconnect", "scb": "close_on_disconnected", "tier": tier, "seed": seed})
        for shape in SHAPES:
            for scb in (("ok",) if tier == "quick" and shape not in ("plain", "slow_transport", "fault_reconnect", "send_write_error", "send_fault_read_silent", "double_close", "busy_reply_while_closing") else ("ok", "raise", "slow", "slow_connected", "slow_closed")
                        + (("raise_on_disconnected", "raise_on_connected") if shape in ("fault_reconnect", "send_write_error", "send_fault_read_silent") else ())):
                out.append({"name": f"{kind}-{shape}-{scb}", "kind": kind, "shape": shape, "scb": scb, "tier": tier, "seed": seed})
    return out


CB_STYLES = ("method", "object", "lambda", "partial", "orphan-method")


def session(kind, shape, step, scb, bystander=False, cb_style="method"):
    info = {"close_step": None, "close_ret_step": None, "open_after_a_close_returned": []}

    async def scenario(sim):
        loop = sim.loop
        errs = refusal_errors(kind)

        def do_close():
            info["close_step"] = loop.steps
            sim.spawn("close")
            if shape == "busy_reply_while_closing" and kind == "ebyte":
                # the gateway's 'no free slot' answer arrives while close() is under way (possibly parked in a slow callback)
                def busy():
                    for c_ in sim.conns:
                        if not c_.lost and not c_.closing:
                            c_.feed(b"Sorry,Limited")
                loop.call_later(0.02, busy)
                loop.at_step(loop.steps + 1, busy)
            if shape == "double_close":
                # a second close() while the first one is still running (one and three steps later)
                loop.at_step(loop.steps + 1, lambda: sim.spawn("close"))
                loop.at_step(loop.steps + 3, lambda: sim.spawn("close"))
        if shape == "refusing":
            sim.connect_script = [("refuse", errs[0], 0.01), ("refuse", errs[1], 0.3), ("refuse", errs[2], 0.01)]
        elif shape == "slow_transport":
            sim.connect_script = [("accept", 0.5)]
        elif shape in ("fault_reconnect", "callbacks_replaced"):
            sim.connect_script = [("accept", 0.001), ("refuse", errs[0], 0.01), ("accept", 0.2)]

        def on_accept(conn):
            def later():
                if not conn.lost and not conn.closing:
                    conn.feed(packet(kind, 100 + conn.id) + packet(kind, 100 + conn.id, 1)[:6])
            loop.call_later(0.05, later)
            if shape in ("fault_reconnect", "callbacks_replaced") and conn.id == 0:
                def fault():
                    if not conn.lost and not conn.closing:
                        conn.reset(simgw.link_loss(kind))
                loop.call_later(0.12, fault)
        sim.on_accept.append(on_accept)

        def a_close_returned():
            # any close() call that returns promises a shut link and silence: look 0.1 virtual s later (a connect that
            # was in flight may need a moment to notice), and offer a packet on whatever is still open
            def look():
                still = [c for c in sim.conns if not c.lost and not c.closing]
                if still:
                    info["open_after_a_close_returned"].append([c.id for c in still])
                    for c in still:
                        c.feed(packet(kind, 240))
            loop.call_later(0.1, look)
        sim.on_close_return.append(a_close_returned)
        loop.at_step(step, do_close)
        if shape == "callbacks_replaced":
            # new status / receive callbacks are registered while connected (before the fault at 0.12 s)
            loop.call_later(0.08, sim.replace_callbacks)
        if shape != "never_connected":
            sim.spawn("connect")
        if shape == "double_connect":
            # a second and a third connect() while the first is in flight / after it finished
            loop.at_step(2, lambda: sim.spawn("connect"))
            loop.call_later(0.2, lambda: sim.spawn("connect"))
        if shape == "send":
            await asyncio.sleep(0.1)
            if sim.conns:
                sim.conns[-1].pause_plan = [3, 0, 2]
            for _ in range(3):
                sim.spawn("send", make_send_message(kind))
                await asyncio.sleep(0.01)
        if shape == "send_peer_stopped_reading":
            # the gateway stops reading for good: a send() stays suspended in drain() until the link goes
            await asyncio.sleep(0.1)
            if sim.conns and kind != "actisense":
                sim.conns[-1].pause_plan = [10 ** 9]
                for _ in range(2):
                    sim.spawn("send", make_send_message(kind))
                    await asyncio.sleep(0.01)
        if shape == "send_fault_read_silent":
            # only the write direction of the link breaks (drain() raises, nothing arrives on the read side): the
            # reconnect then finds the previous receive path still alive. Harsher than what asyncio's own transports
            # do (they tear both directions down together); close() must be final under it as well.
            await asyncio.sleep(0.1)
            if sim.conns and kind != "actisense":
                sim.conns[-1].drain_fails = 0
                sim.spawn("send", make_send_message(kind))
                await asyncio.sleep(0.2)
        if shape == "send_write_error":
            # a failing write: both the send path and the receive path notice the loss (two fault handlers, one
            # DISCONNECTED notification)
            await asyncio.sleep(0.1)
            if sim.conns and kind != "actisense":
                sim.conns[-1].fail_write_after = 0
                sim.spawn("send", make_send_message(kind))
                await asyncio.sleep(0.2)
        if shape == "after_close_calls":
            await asyncio.sleep(0.3)
        # wait until close() has been issued and returned, then poke the closed client
        for _ in range(4000):
            if sim.close_returned:
                break
            await asyncio.sleep(0.01)
        info["close_ret_step"] = loop.steps
        if shape == "double_close" and sim.close_returned:
            sim.spawn("close")
            await asyncio.sleep(0.2)
        if shape in ("after_close_calls", "never_connected") and sim.close_returned:
            sim.spawn("connect")
            sim.spawn("send", make_send_message(kind))
            await asyncio.sleep(0.5)
            sim.spawn("connect")
        # late traffic on every connection that is still open (must not reach the callback)
        await asyncio.sleep(0.5)
        for c in sim.conns:
            if not c.lost and not c.closing:
                c.feed(packet(kind, 230))
        await asyncio.sleep(40.0)
    # every fourth session: the client also dumps what it receives - into a file that cannot be flushed (a full disk). Whatever
    # becomes of the dump, close() is still final and the link is shut
    import os as _os
    ck = {"dump_to_file": "/dev/full"} if (step % 4 == 2 and _os.path.exists("/dev/full")) else None
    sim, stats = simgw.run_session(kind, scenario, status_cb=scb, recv_cb="slow" if shape == "slow_receive_cb" else "ok", bystander=bystander, cb_style=cb_style,
                                   client_kwargs=ck)
    if ck and sim is not None:
        sim.dumping_to_a_full_disk = True
    return sim, stats, info


def check(sim, stats, info, acc, kind, shape, step, scb):
    acc.count("sessions")
    w = {"client": kind, "shape": shape, "step": step, "status_cb": scb, "status": sim.status if sim else None,
         "state_changes": sim.state_changes if sim else None,
         "trace_tail": [{k: (v.hex() if isinstance(v, bytes) else v) for k, v in e.items()} for e in (sim.trace if sim else []) if e["k"] not in ("write", "feed")][-45:]}
    if stats["error"]:
        acc.inconclusive_because(f"simulator: {stats['error']} ({kind} {shape} step {step})")
        return None
    if info["close_step"] is None:
        acc.case(None)
        acc.count("close_step_beyond_session")
        return None
    acc.count("close_injected")
    cs = info["close_step"]
    in_flight = any(e["k"] in ("attempt", "accepted", "status") and e["s"] <= cs for e in sim.trace)
    acc.case((kind, shape, step, scb) if in_flight else None)
    # 1. state CLOSED forever once close() has begun (the setter runs in the first step of close())
    first_closed = next((s for s, st in sim.state_changes if st == "CLOSED"), None)
    if first_closed is None:
        acc.violation("never-closed", f"{kind}/{shape}: close() at step {step} but state never became CLOSED", w)
        return None
    later = [(s, st) for s, st in sim.state_changes if s > first_closed and st != "CLOSED"]
    acc.count("state_samples_after_close", max(0, sim.loop.steps - first_closed))
    if later:
        what = "in-flight-connect" if any(e["k"] == "attempt" and e["s"] <= cs for e in sim.trace) and not any(e["k"] == "accepted" and e["s"] <= cs for e in sim.trace) else "other"
        acc.violation(f"state-leaves-closed:{what}", f"{kind}/{shape}: close() at step {step}; state went CLOSED -> {later[0][1]} at step {later[0][0]}", w)
    # 2. no new connection attempt after close began; every transport shut at quiescence
    t_close = next(e["t"] for e in sim.trace if e["k"] == "call" and e["name"] == "close")
    late_attempts = [a for a in sim.attempts if a["start_step"] > cs + 1]
    if late_attempts:
        acc.violation("connection-attempt-after-close", f"{kind}/{shape}: {len(late_attempts)} connection attempt(s) started after close() (step {step})", w)
    open_conns = [c.id for c in sim.conns if not c.closing and not c.lost]
    if open_conns:
        acc.violation("link-left-open-after-close", f"{kind}/{shape}: connection(s) {open_conns} still open 40 virtual s after close() (step {step})", w)
    if info["open_after_a_close_returned"]:
        acc.violation("link-open-after-a-close-call-returned", f"{kind}/{shape}: 0.1 virtual s after a close() call returned (close issued at step {step}) connection(s) "
                      f"{info['open_after_a_close_returned'][0]} were still open", w)
    if sim.old_cb_calls_after_replacement:
        acc.violation("replaced-callback-still-called", f"{kind}/{shape}: {sim.old_cb_calls_after_replacement} call(s) went to a callback after the application had replaced it", w)
    # 3. no receive callback after close() returned
    if sim.recv_after_close_returned:
        acc.violation("receive-callback-after-close-returned", f"{kind}/{shape}: {sim.recv_after_close_returned} receive callback(s) after close() returned", w)
    # 4. background tasks finished
    if sim.pending_at_end:
        acc.violation("background-tasks-survive-close", f"{kind}/{shape}: still pending 40 virtual s after close(): {sim.pending_at_end[:3]}", dict(w, pending=sim.pending_at_end))
    # 5. status trace faithful
    acc.count("status_traces_checked")
    st = sim.status
    if any(a == b for a, b in zip(st, st[1:])):
        acc.violation("status-notified-twice-in-a-row", f"{kind}/{shape}: status trace {st}", w)
    sampled = [s for _, s in sim.state_changes][1:]        # first sample is the initial state
    it = iter(st)
    if not all(any(x == y for y in it) for x in sampled):
        acc.violation("status-trace-misses-state-change", f"{kind}/{shape}: sampled changes {sampled} not contained in status trace {st}", w)
    if st and st[-1] != "CLOSED":
        acc.violation("last-status-not-closed", f"{kind}/{shape}: status trace {st} does not end in CLOSED", w)
    acc.cover("shapes", f"{kind}/{shape}")
    if step % 11 == 3:
        acc.sample({"client": kind, "shape": shape, "close_at_step": step, "status_callback": scb, "sampled_state_changes": sim.state_changes,
                    "status_trace": st, "attempts": [(a["start_step"], a["outcome"]) for a in sim.attempts], "connections_closed": [c.closing or c.lost for c in sim.conns],
                    "tasks_pending_at_quiescence": sim.pending_at_end, "receive_callbacks_after_close_returned": sim.recv_after_close_returned}, cap=6)
    return {"status": st, "attempts": len(sim.attempts), "received": len(sim.received), "final": sim.state_changes[-1][1]}


def run_shard(spec, acc):
    kind, shape, scb = spec["kind"], spec["shape"], spec["scb"]
    quick = spec["tier"] == "quick"
    # baseline: how many steps does the shape take until steady state (close far in the future)
    sim0, stats0, _ = session(kind, shape, 10 ** 9, "ok")
    if stats0["error"] and stats0["error"] != "quiescent-deadlock":
        pass
    # the session without close never finishes its wait loop; measure the busy prefix instead
    busy = max([e["s"] for e in sim0.trace if e["k"] in ("recv", "accepted", "attempt", "status", "ret")] or [30]) + 8 if sim0 else 60
    busy = min(busy, 400)
    steps = list(range(0, busy + 1))
    if quick and len(steps) > 60:
        steps = steps[:40] + steps[40::4]
    for step in steps:
        by = step % 3 == 1          # every third session shares process and loop with an untouched second client
        style = CB_STYLES[step % len(CB_STYLES)]          # the callbacks come in every shape an application may hand over
        sim, stats, info = session(kind, shape, step, scb, bystander=by, cb_style=style)
        acc.cover("callback_styles", style)
        res = check(sim, stats, info, acc, kind, shape, step, scb)
        if by and sim is not None and not stats["error"]:
            simgw.judge_bystander(sim, acc, {"client": kind, "shape": shape, "step": step, "status_cb": scb})
        if scb in ("raise", "raise_on_disconnected", "raise_on_connected") and res is not None:
            # a raising status callback must not change what the client does
            sim2, stats2, info2 = session(kind, shape, step, "ok", bystander=by, cb_style=style)
            if not stats2["error"] and info2["close_step"] is not None:
                res2 = {"status": sim2.status, "attempts": len(sim2.attempts), "received": len(sim2.received), "final": sim2.state_changes[-1][1]}
                acc.count("raising_vs_benign_compared")
                if res2 != res:
                    acc.violation("raising-status-callback-changes-behaviour", f"{kind}/{shape} step {step}: {res} with a raising callback, {res2} with a benign one",
                                  {"client": kind, "shape": shape, "step": step})
    acc.set_exhaustive(f"{kind}/{shape}/{scb}: close() at every loop step 0..{busy}", len(steps) == busy + 1)
    acc.sample({"client": kind, "shape": shape, "status_cb": scb, "close_steps": [steps[0], steps[-1]], "sessions": len(steps)})


def replay(w, acc):
    sim, stats, info = session(w["client"], w["shape"], w["step"], w.get("status_cb", "ok"))
    check(sim, stats, info, acc, w["client"], w["shape"], w["step"], w.get("status_cb", "ok"))
