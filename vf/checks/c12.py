"""C12 - gateway clients deliver every decodable frame once, in order, for any chunking."""
from __future__ import annotations

import asyncio

from ..lib import PhysicalQuantities, NMEA2000Decoder
from .. import refdb, gen, wire, hist, project, simgw

ID = "C12"
LEVEL = "fault_enumeration"
RULE = ("cases = sessions of a real client (EByte, Actisense, Yacht Devices, Waveshare) on the virtual-time loop: a "
        "byte stream of valid, filtered, unknown-PGN and malformed packets is fed to the simulated transport under an "
        "enumerated segmentation (1 byte at a time, all at once, a cut at every offset of a short stream, cuts inside "
        "the identifier / the line ending / the start marker, random cuts, idle loop steps between chunks) with a "
        "receive callback that returns, raises or is slow; the sequence of messages handed to the callback is compared "
        "with what a fresh decoder with the same settings returns for the stream's packets in order; non-trivial = "
        "session whose stream had at least 2 deliverable messages and at least one non-deliverable packet or a cut "
        "inside a packet; distinct = distinct (client, settings, stream, segmentation, callback mode)")
ASSUMPTIONS = ["only the transport is simulated (asyncio's StreamReader/Protocol/Writer are real); conformance sample on real loopback TCP",
               "text lines shorter than the 64 KiB StreamReader limit; the EByte 'Sorry,Limited' banner is not generated",
               "malformed text packets are garbage under both strict and lenient UTF-8 decoding"]
REQUIRED_COUNTERS = ["sessions", "messages_delivered_and_compared", "cut_points_inside_packets"]
SHARD_TIMEOUT = {"quick": 400, "thorough": 3000}


def shards(tier, seed):
    out = []
    for kind in simgw.KINDS:
        for cb in ("ok", "raise_some", "slow", "reply"):
            for part in range(1 if tier == "quick" else 6):
                out.append({"name": f"{kind}-{cb}-{part}", "kind": kind, "cb": cb, "part": part, "tier": tier, "seed": seed})
        out.append({"name": f"{kind}-allcuts", "kind": kind, "cb": "ok", "allcuts": True, "tier": tier, "seed": seed})
        out.append({"name": f"{kind}-long", "kind": kind, "cb": "raise_some", "long": True, "tier": tier, "seed": seed})
        out.append({"name": f"{kind}-long-slow", "kind": kind, "cb": "slow", "long": True, "tier": tier, "seed": seed})
    out.append({"name": "conformance-real-tcp", "conformance": True, "tier": tier, "seed": seed})
    return out


# ---------------------------------------------------------------------------
# streams
# ---------------------------------------------------------------------------

def packetise(kind, ev: hist.Ev, rng):
    ident = ev.ident()
    if kind == "ebyte":
        return wire.ebyte_frame(ident, ev.data, pad=rng.choice([0, 0xFF]))
    if kind == "waveshare":
        return wire.usb_frame(ident, ev.data)
    if kind == "yd":
        return wire.yd_line(ident, ev.data, rng.choice("RT"), lower=rng.random() < 0.3).encode()
    raise ValueError(kind)


def malformed(kind, rng):
    if kind == "ebyte":
        return rng.choice([
            wire.ebyte_frame(wire.can_id(3, 130999, 9, 255), bytes(range(8))),          # unknown PGN
            wire.ebyte_frame(wire.can_id(3, 129029, 9, 255), b""),                       # fast PGN, no data
            wire.ebyte_frame(wire.can_id(3, 129029, 9, 255), bytes([0x20])),             # fast PGN, 1 byte
            wire.ebyte_frame(wire.can_id(3, 127250, 9, 255), b"\xfd" * 8),               # out of range fields
        ])
    if kind == "waveshare":
        p = bytearray(wire.usb_frame(wire.can_id(3, 127250, 9, 255), bytes([1, 2, 3, 4, 5, 6, 7, 8])))
        which = rng.randrange(6)
        if which == 3:
            # correctly framed, valid checksum, but the payload is rejected by the field decoder (raises)
            p = bytearray(wire.usb_frame(wire.can_id(3, 127250, 9, 255), b"\xfd" * 8))
        elif which == 4:
            p = bytearray(wire.usb_frame(wire.can_id(3, 129029, 9, 255), bytes([0x20])))     # fast PGN, 1 data byte (raises)
        elif which == 5:
            p = bytearray(wire.usb_frame(wire.can_id(3, 129029, 9, 255), b""))               # fast PGN, no data (raises)
        elif which == 0:
            p[19] ^= 0x5A                       # bad checksum
        elif which == 1:
            p[12] ^= 0x01                       # corrupted data byte, checksum stale
        else:
            p = bytearray(wire.usb_frame(wire.can_id(3, 130999, 9, 255), bytes(8)))    # unknown PGN, valid packet
        if b"\xaa\x55" in bytes(p[2:]):
            p = bytearray(wire.usb_frame(wire.can_id(3, 130999, 9, 255), bytes(8)))
        return bytes(p)
    eol = b"\r\n"
    cands = [b"", b"garbage", b"A1 2", b"\xff\xfe\xfd", b"00:00:00.000 R ZZZZZZZZ 00 11", b"A000001.000 09FF7 1F513 GG",
             b"00:00:00.000 X 09F80101 00", b"$GPGGA,1,2,3*00", b"A000001.000 09FF7 3FFFF 0011"]
    if kind == "yd":
        cands.append(b"00:00:00.000 R 09F80509 20")          # fast-packet PGN, first frame with a single byte
        cands.append(b"00:00:00.000 R 09F80509")
        cands.append(wire.yd_line(wire.can_id(3, 130999, 9, 255), bytes(8)).encode().strip())
        cands.append(wire.yd_line(wire.can_id(3, 127250, 9, 255), b"\xfd" * 8).encode().strip())
    else:
        cands.append(b"A000001.000 09FF7 1F513")              # no data part
        cands.append(b"A000001.000 09FF7 1F513 ")
        cands.append(b"A.5 09FF7 1F513 00")
        cands.append(wire.actisense_line(3, 130999, 9, 255, bytes(8)).encode())
        cands.append(wire.actisense_line(3, 127250, 9, 255, b"\xfd" * 8).encode())
    return rng.choice(cands) + eol


def build_stream(kind, dbx, rng, n_events):
    """-> list of packets (bytes). Actisense carries whole messages, the others frames."""
    pool = hist.Pool(dbx, rng, n_single=6, n_fast=5, max_fast_len=223)
    packets = []
    if kind == "actisense":
        while len(packets) < n_events:
            if rng.random() < 0.2:
                packets.append(malformed(kind, rng))
                continue
            d = rng.choice(pool.singles + pool.fasts)
            pb = pool.payload(d)
            if pb is None:
                continue
            ts = rng.choice(["A000000.000", "A173321.107", "A999999.999"])
            line = wire.actisense_line(rng.randrange(8), d.pgn, rng.choice([1, 2, 3]), 255, pb, ts)
            packets.append(line.encode() + rng.choice([b"\r\n", b"\n"]))
        return packets, pool
    # claims: a known device, and one whose manufacturer / class / function codes are not in the lookup tables (its
    # identity has no names - the messages are just as deliverable)
    events = hist.build_history(pool, rng, [1, 2, 3, 4], n_events,          # (source 4 never claims an address)
                                {s: [hist.claim_name(100 + s, 1851), hist.claim_name(200 + s, 1999, function=251, dev_class=119)] for s in (1, 2, 3)}, p_claim=0.07)
    for ev in events:
        packets.append(packetise(kind, ev, rng))
        if rng.random() < 0.15:
            packets.append(malformed(kind, rng))
    if kind == "waveshare" and pool.singles:
        # a packet whose last byte (the checksum) is 0xAA - the first half of the start marker - followed by a stray 0x55 and
        # then by the next packet: with a read boundary at any place (the per-packet segmentation puts one exactly behind
        # the checksum) the stray byte is dropped and the next packet is delivered
        for _ in range(3):
            d = rng.choice(pool.singles)
            pb = pool.payload(d)
            if pb is None:
                continue
            for src_ in range(1, 250):
                p_ = wire.usb_frame(wire.can_id(3, d.pgn, src_, 255), pb)
                if p_[-1] == 0xAA and b"\xaa\x55" not in p_[2:]:
                    at = rng.randrange(1, len(packets))
                    packets[at:at] = [p_, b"\x55"]
                    break
    return packets, pool


def expected_messages(kind, packets, settings, clock_jump_at=None):
    """clock_jump_at: index of the packet from which on the decoder's clock is 11 minutes ahead (past the discovery window)."""
    import contextlib
    from ..lib import decoder_clock_box
    with (decoder_clock_box() if clock_jump_at is not None else contextlib.nullcontext()) as box:
        return _expected_messages(kind, packets, settings, clock_jump_at, box)


def _expected_messages(kind, packets, settings, clock_jump_at, box):
    dec = NMEA2000Decoder(**settings)
    out = []
    undeliverable = 0
    for n_, p in enumerate(packets):
        if clock_jump_at is not None and n_ == clock_jump_at:
            box["offset"] = 660.0
        try:
            if kind == "ebyte":
                m = dec.decode_tcp(p)
            elif kind == "waveshare":
                m = dec.decode_usb(p)
            elif kind == "yd":
                m = dec.decode_yacht_devices_string(p.decode("utf-8", errors="ignore").strip())
            else:
                m = dec.decode_actisense_string(p.decode("utf-8", errors="ignore").strip())
        except Exception:  # noqa: BLE001
            m = None
        if m is None:
            undeliverable += 1
        else:
            out.append(project.msg_proj(m))
    return out, undeliverable


def segmentations(kind, packets, rng, quick):
    """Yield (label, list of cut offsets, idle_steps)."""
    stream = b"".join(packets)
    n = len(stream)
    yield "all_at_once", [], 0
    yield "per_packet", list(_boundaries(packets))[:-1], 0
    yield "one_byte_at_a_time", list(range(1, n)), 0
    # cuts inside structure
    inside = []
    pos = 0
    for p in packets:
        if kind == "ebyte":
            inside += [pos + 1, pos + 3, pos + 5]
        elif kind == "waveshare":
            inside += [pos + 1, pos + 7, pos + 19]               # inside AA|55, inside identifier, before checksum
        else:
            inside += [pos + 3, pos + len(p) - 1, pos + max(1, len(p) - 2)]     # inside the text, between CR and LF
        pos += len(p)
    yield "inside_headers_and_terminators", sorted(set(c for c in inside if 0 < c < n)), 1
    for k in range(2 if quick else 8):
        m = rng.randint(1, max(1, min(n - 1, 40)))
        yield "random", sorted(rng.sample(range(1, n), min(m, n - 1))) if n > 2 else [], rng.choice([0, 1, 3])


def _boundaries(packets):
    pos = 0
    for p in packets:
        pos += len(p)
        yield pos


def run_one(kind, stream, cuts, idle_steps, settings, cb, split_at=None, resume_at=None, bystander=False, cb_style="method", register_at=None, clock_jump=False,
            loss=None, status_cb="ok", early_loss=False):
    """split_at: byte offset (a packet boundary) at which the gateway drops the link; the rest of the stream arrives
    on the connection the client opens next."""
    async def scenario(sim):
        sim.spawn("connect")
        await asyncio.sleep(0.05)
        if not sim.conns:
            return
        conn = sim.conns[0]
        pos = 0
        if early_loss:
            # the first link is lost a moment after it came up - while the application's CONNECTED callback is still running -
            # before the gateway has sent anything; the whole stream arrives on the connection the client opens next
            await asyncio.sleep(0.1)
            conn.reset(simgw.link_loss(kind))
            for _ in range(6000):
                if len(sim.conns) > 1 and sim.client.state.name == "CONNECTED":
                    break
                await asyncio.sleep(0.01)
            await asyncio.sleep(0.5)
            if len(sim.conns) < 2:
                return
            conn = sim.conns[-1]
        if register_at is not None:
            # the application registers its receive callback late: the client has been reading (and its decoder
            # reassembling, learning identities) for a while with nobody listening
            sim.client.set_receive_callback(None)
        for c in cuts + [len(stream)]:
            if register_at is not None and pos < register_at <= c and sim.client.receive_callback is None:
                if register_at > pos:
                    conn.feed(stream[pos:register_at])
                    pos = register_at
                await asyncio.sleep(0.5)
                sim.client.set_receive_callback(sim._styled(sim._on_receive))
            if split_at is not None and pos < split_at <= c and conn is sim.conns[0]:
                if split_at > pos:
                    conn.feed(stream[pos:split_at])
                    pos = split_at
                await asyncio.sleep(0.5)          # what was sent so far is read before the link goes
                if clock_jump:
                    sim.clock_box["offset"] = 660.0      # eleven minutes pass before the link drops: the client is no longer young
                # how the link goes: an orderly end of stream, or an error (by turns every class a lost link shows as). With an
                # error the stream reader hands out nothing more, not even the partial line it holds
                if loss == "send_failure":
                    # the loss is noticed by the WRITE side: the flush of a send() of the application fails while the read side of
                    # the link stays silent; the client reconnects because of that
                    from .c13 import make_send_message
                    conn.drain_fails = 0
                    sim.spawn("send", make_send_message(kind))
                elif kind == "waveshare" or loss == "error" or (loss is None and split_at % 3 == 0):
                    conn.reset(simgw.link_loss(kind))
                else:
                    conn.feed_eof()
                for _ in range(6000):
                    if len(sim.conns) > 1:
                        break
                    await asyncio.sleep(0.01)
                if len(sim.conns) < 2:
                    return
                await asyncio.sleep(0.05)
                conn = sim.conns[-1]
                if resume_at is not None:
                    pos = resume_at          # the rest of the packet that was cut never arrives: a new link starts with a whole packet
                    if c <= pos:
                        continue
            if c > pos:
                conn.feed(stream[pos:c])
                pos = c
            for _ in range(idle_steps):
                await asyncio.sleep(0)
            if idle_steps == 0 and len(cuts) < 300:
                await asyncio.sleep(0)
        await asyncio.sleep(5.0 + 0.03 * len(stream) / 13)     # let a slow callback (0.02 s per message) drain the queue
        await sim.close_guarded()
    if clock_jump:
        from ..lib import decoder_clock_box
        with decoder_clock_box() as box:
            async def scenario_c(sim):
                sim.clock_box = box
                await scenario(sim)
            return simgw.run_session(kind, scenario_c, client_kwargs=settings, recv_cb=cb, bystander=bystander, cb_style=cb_style, status_cb=status_cb)
    return simgw.run_session(kind, scenario, client_kwargs=settings, recv_cb=cb, bystander=bystander, cb_style=cb_style, status_cb=status_cb)


def run_shard(spec, acc):
    if spec.get("conformance"):
        return conformance(spec, acc)
    dbx = refdb.db()
    kind, cb = spec["kind"], spec["cb"]
    rng = gen.rng_for(spec["seed"], ID, spec["name"])
    quick = spec["tier"] == "quick"
    if spec.get("long"):
        # one client instance, hundreds of packets with many undeliverable ones in between: what is delivered must not
        # depend on how much (or how much garbage) the client has already processed
        for rep in range(1 if quick else 6):
            packets, pool = build_stream(kind, dbx, rng, 1000 if quick else 2500)      # several hundred deliverable messages in one burst
            extra = []
            for pkt in packets:
                extra.append(pkt)
                if rng.random() < 0.3:
                    extra.append(malformed(kind, rng))
            packets = extra
            if kind != "actisense" and any(7 <= (x.length or 0) <= 60 for x in pool.fasts):
                # a slow sender: the frames of one fast-packet message are hundreds of packets apart (nothing in the
                # statement bounds the time or the traffic between two frames of a message)
                d_ = min((x for x in pool.fasts if 7 <= (x.length or 0) <= 60), key=lambda x: x.length)
                pb_ = pool.payload(d_)
                if pb_ is not None:
                    fr_ = wire.fast_frames(pb_, 5, 0xFF)
                    if 2 <= len(fr_) <= 9:
                        for j_, f_ in enumerate(fr_):
                            # the first frame early, the second in the middle, the rest near the end
                            at = int(len(packets) * (0.04 if j_ == 0 else 0.5 if j_ == 1 else 0.96)) + j_
                            packets.insert(at, packetise(kind, hist.Ev(3, d_.pgn, 77, 255, f_, "fast", 99999, last=(j_ == len(fr_) - 1), definition=d_.id), rng))
                        acc.count("long_sessions_with_a_slow_fast_packet_sender")
            stream = b"".join(packets)
            want, undel = expected_messages(kind, packets, {})
            for label, cuts in (("reads_of_100", list(range(100, len(stream), 100))), ("reads_of_7", list(range(7, len(stream), 7))),
                                ("all_at_once", [])):
                sim, stats = run_one(kind, stream, cuts, 0, {}, cb)
                judge(sim, stats, want, acc, kind, "long/" + label, cuts, {}, cb, stream, undel, True)
        return
    if spec.get("allcuts"):
        # short stream: a cut at every single offset, and every pair of offsets for the shortest one
        packets, pool = build_stream(kind, dbx, rng, 4)
        packets = packets[:5]
        stream = b"".join(packets)
        want, undel = expected_messages(kind, packets, {})
        offs = range(1, len(stream))
        combos = [[c] for c in offs]
        if not quick:
            combos += [[a, b] for a in offs for b in offs if a < b][:25000]
        for cuts in combos:
            sim, stats = run_one(kind, stream, cuts, 1, {}, "ok")
            judge(sim, stats, want, acc, kind, "cut_at_every_offset", cuts, {}, cb, stream, undel, True)
        acc.set_exhaustive(f"{kind}: single cut at every offset of a {len(stream)}-byte stream", True)
        return
    for rep in range(15 if quick else 150):
        settings = {}
        packets, pool = build_stream(kind, dbx, rng, 25 if quick else 60)
        if rep % 3 == 1:
            d = rng.choice(pool.singles + pool.fasts)
            settings = {"exclude_pgns": [d.pgn]}
        elif rep % 3 == 2:
            d = rng.choice(pool.singles + pool.fasts)
            settings = {"include_pgns": [d.pgn, rng.choice(pool.singles).id, 60928]}
        # "a decoder with the same settings": the other decoder settings a client passes through
        if rep % 5 == 1:
            settings["preferred_units"] = {PhysicalQuantities.TEMPERATURE: "C", PhysicalQuantities.PRESSURE: "bar", PhysicalQuantities.ANGLE: "deg", PhysicalQuantities.SPEED: "kts"}
        elif rep % 5 == 2:
            settings["build_network_map"] = True
        elif rep % 5 == 3:
            settings[rng.choice(["exclude_manufacturer_code", "include_manufacturer_code"])] = [rng.choice(["Raymarine", "raymarine", "Garmin"])]
        elif rep % 5 == 4:
            settings.update({"build_network_map": True, "preferred_units": {PhysicalQuantities.ANGLE: "deg"}, "exclude_manufacturer_code": ["Furuno"]})
        acc.cover("client_settings", "+".join(sorted(settings)) or "none")
        stream = b"".join(packets)
        want, undel = expected_messages(kind, packets, settings)
        bset = set(_boundaries(packets))
        for label, cuts, idle in segmentations(kind, packets, rng, quick):
            by = label == "per_packet" or (label == "random" and rep % 2 == 0)      # some sessions next to an untouched second client
            style = ("method", "object", "lambda", "partial", "orphan-method")[(rep + len(cuts)) % 5]
            acc.cover("callback_styles", style)
            sim, stats = run_one(kind, stream, cuts, idle, settings, cb, bystander=by, cb_style=style)
            inside = any(c not in bset for c in cuts)
            judge(sim, stats, want, acc, kind, label, cuts, settings, cb, stream, undel, inside)
            if by and sim is not None and not stats["error"]:
                simgw.judge_bystander(sim, acc, {"client": kind, "segmentation": label, "settings": repr(settings), "callback": cb})
        if not settings.get("build_network_map"):
            # the first link is lost while the application's status callback for CONNECTED is still running (it suspends for a
            # while), nothing sent yet; everything arrives on the next connection
            for scb_ in ("slow_connected", "slow", "ok"):
                cuts = sorted(rng.sample(range(1, len(stream)), min(10, len(stream) - 1)))
                sim, stats = run_one(kind, stream, cuts, 1, settings, cb, status_cb=scb_, early_loss=True)
                acc.count("sessions_with_the_first_link_lost_during_the_connected_callback")
                judge(sim, stats, want, acc, kind, f"first_link_lost_during_the_CONNECTED_callback[{scb_}]", cuts, settings, cb, stream, undel, True)
        if True:
            # the link drops at a packet boundary in the middle of the stream (possibly inside a fast-packet message);
            # the rest arrives on the next connection: same decoder, same expected deliveries
            bl = sorted(bset)
            split = bl[len(bl) // 2 + rng.randint(-3, 3)] if len(bl) > 8 else None
            if split is not None and split < len(stream):
                cuts = sorted(rng.sample(range(1, len(stream)), min(20, len(stream) - 1)))
                jump = bool(settings.get("build_network_map"))
                want_c = want
                if jump:
                    # with network mapping the link drops when the client is eleven minutes old: a decoder of the same settings
                    # and the same age returns the traffic of the source that never claimed from then on
                    k_split = next(i_ for i_, e_ in enumerate(_boundaries(packets)) if e_ == split) + 1
                    want_c, _ = expected_messages(kind, packets, settings, clock_jump_at=k_split)
                    acc.count("reconnects_of_an_old_mapping_client")
                sim, stats = run_one(kind, stream, cuts, 1, settings, cb, split_at=split, clock_jump=jump)
                if sim is not None and len(sim.conns) >= 2:
                    acc.count("sessions_continued_on_second_connection")
                    judge(sim, stats, want_c, acc, kind, "continued_after_reconnect", cuts, settings, cb, stream, undel, True)
                else:
                    acc.count("second_connection_not_opened")
            # late registration of the receive callback, at a packet boundary in the middle of the stream (possibly inside
            # a fast-packet message, after address claims): everything the decoder returns for the packets after that point
            # is delivered - the decoder itself has seen the whole stream
            bl = sorted(bset)
            if len(bl) > 8:
                k = len(bl) // 2 + rng.randint(-3, 3)
                reg = bl[k]
                dec_ = NMEA2000Decoder(**settings)
                want_late = []
                for n_, p_ in enumerate(packets):
                    try:
                        m_ = (dec_.decode_tcp(p_) if kind == "ebyte" else dec_.decode_usb(p_) if kind == "waveshare" else
                              dec_.decode_yacht_devices_string(p_.decode("utf-8", errors="ignore").strip()) if kind == "yd" else
                              dec_.decode_actisense_string(p_.decode("utf-8", errors="ignore").strip()))
                    except Exception:  # noqa: BLE001
                        m_ = None
                    if m_ is not None and n_ > k:
                        want_late.append(project.msg_proj(m_))
                cuts = sorted(rng.sample(range(1, len(stream)), min(20, len(stream) - 1)))
                sim, stats = run_one(kind, stream, cuts, 1, settings, cb, register_at=reg)
                acc.count("sessions_with_late_callback_registration")
                judge(sim, stats, want_late, acc, kind, "receive_callback_registered_mid_stream", cuts, settings, cb, stream, undel, True)
            # the link dies in the middle of a packet; the next connection starts with the following packet. The cut packet
            # is lost (binary clients) or handed over as the partial line the stream reader returns at end of stream
            bl = sorted(bset)
            if len(bl) > 8:
                k = len(bl) // 2 + rng.randint(-3, 3)
                p_start, p_end = bl[k - 1], bl[k]
                if p_end - p_start >= 4:
                    mid = rng.randint(p_start + 1, p_end - 1)
                    pk2 = list(packets)
                    idx = next(i for i, e in enumerate(_boundaries(packets)) if e == p_end)
                    loss_ = "error" if (kind == "waveshare" or mid % 2) else "eof"
                    if kind != "actisense" and mid % 3 == 0:
                        loss_ = "send_failure"
                    if kind in ("yd", "actisense") and loss_ == "eof":
                        pk2[idx] = stream[p_start:mid]
                    else:
                        del pk2[idx]
                    want2, undel2 = expected_messages(kind, pk2, settings)
                    cuts = sorted(rng.sample(range(1, len(stream)), min(20, len(stream) - 1)))
                    sim, stats = run_one(kind, stream, cuts, 1, settings, cb, split_at=mid, resume_at=p_end, loss=loss_)
                    acc.cover("mid_packet_link_loss_kinds", loss_)
                    if sim is not None and len(sim.conns) >= 2:
                        acc.count("sessions_link_lost_mid_packet")
                        judge(sim, stats, want2, acc, kind, "link_lost_mid_packet_then_reconnect", cuts, settings, cb, stream, undel2, True)
                    else:
                        acc.count("second_connection_not_opened")


def judge(sim, stats, want, acc, kind, label, cuts, settings, cb, stream, undel, inside):
    acc.count("sessions")
    acc.cover("segmentations", label)
    acc.cover("clients", kind)
    acc.cover("callback_modes", cb)
    bs = len(cuts)
    if inside:
        acc.count("cut_points_inside_packets", bs)
    w = {"client": kind, "segmentation": label, "cuts": cuts[:50], "settings": repr(settings), "callback": cb, "stream_hex": stream.hex()[:3000]}
    if stats["error"] or sim is None:
        acc.inconclusive_because(f"simulator: {stats['error']}")
        return
    got = [project.msg_proj(m) for m in sim.received]
    acc.case((kind, repr(settings), stream, tuple(cuts), cb) if (len(want) >= 2 and (undel or inside)) else None)
    if any(e["k"] == "loop_monopoly" for e in sim.trace):
        acc.violation("receive-path-spins", f"{kind}: receive path spun without yielding", w)
        return
    if cb == "reply" and kind != "actisense" and sim.conns and not settings.get("build_network_map"):      # (mapping clients also send ISO requests)
        # every delivered message was answered from inside the callback: the answers are on the wire, whole and in number
        from ..lib import NMEA2000Encoder
        from .c13 import make_send_message
        enc_ = NMEA2000Encoder()
        one = b"".join({"ebyte": enc_.encode_ebyte, "waveshare": enc_.encode_usb, "yd": enc_.encode_yacht_devices}[kind](make_send_message(kind)))
        # (the serial client's first write on every connection is its configuration packet)
        written = b"".join(d for c_ in sim.conns for _, d in (c_.written[1:] if kind == "waveshare" else c_.written))
        acc.count("replies_from_inside_the_callback_checked", sim.replies_sent)
        extra_ = sum(1 for e_ in sim.trace if e_["k"] == "drain_failed")          # the harness' own send whose flush was made to fail
        if written != one * (sim.replies_sent + extra_):
            acc.violation("replies-from-callback-not-on-the-wire", f"{kind}: {sim.replies_sent} replies sent from inside the receive callback, {len(written)} bytes on the wire "
                          f"instead of {len(one) * sim.replies_sent}", w)
    if got == want:
        acc.count("messages_delivered_and_compared", len(got))
        if len(cuts) in (1, 5, 7) or label.startswith("long"):
            acc.sample({"client": kind, "segmentation": label, "cuts": cuts[:12], "stream_bytes": len(stream), "stream_head_hex": stream[:48].hex(),
                        "undeliverable_packets": undel, "delivered": len(got), "delivered_pgns": [g[0] for g in got][:12], "callback": cb}, cap=6)
        return
    if len(got) < len(want) and got == want[:len(got)]:
        key = "later-messages-not-delivered"
    elif len(got) > len(want):
        key = "extra-or-duplicate-message-delivered"
    elif sorted(map(repr, got)) == sorted(map(repr, want)):
        key = "messages-reordered"
    else:
        key = "delivered-messages-differ"
    if cb != "ok":
        key += f":callback-{cb}"
    w.update({"expected": len(want), "delivered": len(got), "status": sim.status})
    acc.violation(key, f"{kind} [{label}, callback {cb}]: {len(want)} messages expected, {len(got)} delivered", w)


def conformance(spec, acc):
    """Keeps the simulator honest: the same kind of stream over a real loopback TCP socket (real kernel
    segmentation, real time).  Only order-level observables are compared; a disagreement is reported as
    'simulator disagrees with real transport' (inconclusive), never as a property violation."""
    import socket
    import time as _time
    from nmea2000.ioclient import EByteNmea2000Gateway, ActisenseNmea2000Gateway, YachtDevicesNmea2000Gateway
    dbx = refdb.db()
    rng = gen.rng_for(spec["seed"], ID, spec["name"])

    async def one(kind):
        packets, pool = build_stream(kind, dbx, rng, 20)
        stream = b"".join(packets)
        want, _ = expected_messages(kind, packets, {})
        got = []
        chunks = []
        pos = 0
        while pos < len(stream):
            n = rng.choice([1, 2, 5, 13, 40, 200])
            chunks.append(stream[pos:pos + n])
            pos += n

        async def handle(reader, writer):
            for ch in chunks:
                writer.write(ch)
                await writer.drain()
                if rng.random() < 0.3:
                    await asyncio.sleep(0.001)
            await asyncio.sleep(0.3)
            # keep the connection open: EOF behaviour is C13's subject
            await asyncio.sleep(1.0)

        server = await asyncio.start_server(handle, "127.0.0.1", 0)
        port = server.sockets[0].getsockname()[1]
        cls = {"ebyte": EByteNmea2000Gateway, "actisense": ActisenseNmea2000Gateway, "yd": YachtDevicesNmea2000Gateway}[kind]
        client = cls("127.0.0.1", port)

        async def on_msg(m):
            got.append(project.msg_proj(m))
        client.set_receive_callback(on_msg)
        await asyncio.wait_for(client.connect(), 5)
        t0 = _time.time()
        while len(got) < len(want) and _time.time() - t0 < 5:
            await asyncio.sleep(0.02)
        await client.close()
        server.close()
        return want, got

    for kind in ("ebyte", "actisense", "yd"):
        try:
            from ..vloop import real_loop_guard
            with real_loop_guard(45):
                want, got = asyncio.run(asyncio.wait_for(one(kind), 20))
        except Exception as e:  # noqa: BLE001
            acc.note(f"conformance run for {kind} could not be completed: {type(e).__name__}: {e}")
            continue
        except BaseException as e:  # noqa: BLE001
            if type(e).__name__ != "StepStalled":
                raise
            acc.inconclusive_because("simulator: loop-step-stalled (conformance run on a real event loop and socket: a callback did not return)")
            continue
        acc.count("conformance_runs")
        acc.case(None)
        if got != want:
            acc.note(f"conformance: {kind} over real TCP delivered {len(got)} of {len(want)} expected messages (order-level mismatch)")
            acc.count("conformance_mismatches")
        else:
            acc.count("conformance_messages_equal", len(got))


def replay(w, acc):
    acc.note("replay: witness carries client, stream and cuts; re-run ./check C12")
