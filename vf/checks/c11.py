"""C11 - messages carry the identity of their source's latest address claim."""
from __future__ import annotations

from ..lib import NMEA2000Decoder
from .. import refdb, gen, hist, project, wire

ID = "C11"
LEVEL = "exploration"
RULE = ("cases = (decoder configuration, history) over 4 source addresses mixing address claims (first claims, repeats, "
        "re-claims with another NAME, one NAME on two addresses, claims in the middle of a fast-packet message) with "
        "single-frame and fast-packet data; ground truth tracks the last claim per address; every returned message's "
        "source_iso_name is compared with the reference decode of that NAME, and every None/non-None outcome with the "
        "withholding rules (manufacturer exclude/include in any letter case, mapping on => nothing before the claim); "
        "non-trivial = history where at least one message was returned with an identity and at least one was withheld "
        "or the identity of an address changed; distinct = distinct (configuration, history)")
ASSUMPTIONS = ["histories run inside the decoder's 10-minute discovery window (wall clock not faked)",
               "not judged: manufacturer filtering when the claimed manufacturer code is not in the lookup table; identity sub-fields that are the not-available pattern",
               "a fast-packet message is expected only if every one of its frames was accepted by the per-frame withholding rules"]
REQUIRED_COUNTERS = ["identities_compared", "withheld_as_expected", "claims_seen"]
SHARD_TIMEOUT = {"quick": 300, "thorough": 3000}

MFRS = [1851, 1855, 137, 229, 135]


def shards(tier, seed):
    n = 12 if tier == "quick" else 64
    out = [{"name": f"h-{i}", "i": i, "tier": tier, "seed": seed} for i in range(n)]
    # the same rules for what a gateway client delivers, across a lost link: claims arrive on the first connection,
    # the sources' data (no fresh claims) on the one the client opens next
    out += [{"name": f"client-{k}", "client": k, "tier": tier, "seed": seed} for k in ("ebyte", "yd", "waveshare", "actisense")]
    return out


def run_client(spec, acc):
    import asyncio
    from .. import simgw
    from .c12 import packetise, expected_messages
    dbx = refdb.db()
    rng = gen.rng_for(spec["seed"], ID, spec["name"])
    kind = spec["client"]
    quick = spec["tier"] == "quick"
    mtab = dbx.lookups["MANUFACTURER_CODE"]
    sources = [10, 20, 30]
    for rep in range(12 if quick else 150):
        pool = hist.Pool(dbx, rng, n_single=6, n_fast=0 if kind == "actisense" else 2)
        listed = rng.choice(MFRS)
        mode = ["exclude", "include", "none"][rep % 3]
        settings = {"build_network_map": rep % 2 == 0}
        if mode != "none":
            settings[f"{mode}_manufacturer_code"] = [case_variant(mtab[listed], rng)]
        names = {s_: hist.claim_name(rng.randrange((1 << 21) - 3), rng.choice([listed, rng.choice(MFRS)])) for s_ in sources}

        def pk(ev):
            if kind == "actisense":
                return (wire.actisense_line(ev.prio, ev.pgn, ev.src, 255, ev.data) + "\r\n").encode()
            return packetise(kind, ev, rng)
        late = rep % 4 == 3          # the application registers its receive callback only after the devices have announced themselves
        first = [pk(hist.claim_event(s_, names[s_])) for s_ in sources]
        data = []
        for _ in range(10):
            d = rng.choice(pool.singles)
            pb = pool.payload(d)
            if pb is None:
                continue
            data.append(pk(hist.Ev(rng.randrange(8), d.pgn, rng.choice(sources), 255, pb, "single", definition=d.id)))
        if not late:
            first += data[:3]
            second = data[3:]
        else:
            second = list(data)
        want, _ = expected_messages(kind, first + second, settings)
        if late:
            want = [w_ for w_ in want if w_[0] != 60928]          # (nobody was listening when the claims came in)
            acc.count("client_sessions_with_the_callback_registered_after_the_claims")

        async def scenario(sim):
            sim.spawn("connect")
            await asyncio.sleep(0.05)
            if not sim.conns:
                return
            if late:
                sim.client.set_receive_callback(None)
            sim.conns[0].feed(b"".join(first))
            await asyncio.sleep(0.5)
            if late:
                sim.client.set_receive_callback(sim._styled(sim._on_receive))
            if kind == "waveshare" or rep % 2:
                sim.conns[0].reset(simgw.link_loss(kind))
            else:
                sim.conns[0].feed_eof()
            for _ in range(6000):
                if len(sim.conns) > 1 and sim.client.state.name == "CONNECTED":
                    break
                await asyncio.sleep(0.01)
            if len(sim.conns) > 1:
                await asyncio.sleep(0.05)
                sim.conns[-1].feed(b"".join(second))
            await asyncio.sleep(2.0)
            await sim.close_guarded()
        sim, stats = simgw.run_session(kind, scenario, client_kwargs=settings)
        acc.count("client_sessions_across_a_reconnect")
        if stats["error"] or sim is None:
            acc.inconclusive_because(f"simulator: {stats['error']}")
            continue
        if len(sim.conns) < 2:
            acc.count("second_connection_not_opened")
            continue
        got = [project.msg_proj(m) for m in sim.received]
        acc.case((kind, repr(settings), tuple(first + second)) if want else None)
        acc.count("identities_compared", len(got))
        if got != want:
            leak = [g for g in got if g not in want]
            why = "identity-lost-or-traffic-leaks-after-reconnect" if (leak or len(got) != len(want)) else "client-delivery-differs-from-decoder"
            acc.violation(why, f"{kind} {settings}: claims on the first connection, data on the second: a decoder with the same settings returns {len(want)} messages "
                          f"(with identity), the client delivered {len(got)}; first difference: {next((g[8] for g, w_ in zip(got, want) if g != w_), None)!r}",
                          {"client": kind, "settings": repr(settings), "expected": len(want), "delivered": len(got), "status": sim.status})


def ref_identity(dbx, name: int):
    d = dbx.by_id["isoAddressClaim"]
    exp = {e["field"].id: e for e in dbx.unpack(d, name)}
    def val(fid):
        return exp[fid]["value"]
    def num(fid):
        v = exp[fid]["value"]
        return int(v) if v is not None else 0
    return (num("uniqueNumber"), val("manufacturerCode"), (num("deviceInstanceUpper") << 3) | num("deviceInstanceLower"),
            val("deviceFunction"), val("deviceClass"), num("systemInstance"), val("industryGroup"),
            val("arbitraryAddressCapable") == "Yes", name)


def case_variant(s, rng):
    return rng.choice([s, s.lower(), s.upper(), s.swapcase()])


def run_shard(spec, acc):
    if spec.get("client"):
        return run_client(spec, acc)
    dbx = refdb.db()
    rng = gen.rng_for(spec["seed"], ID, spec["name"])
    quick = spec["tier"] == "quick"
    mtab = dbx.lookups["MANUFACTURER_CODE"]
    sources = [10, 20, 30, 40]
    for c in range(150 if quick else 2000):
        pool = hist.Pool(dbx, rng, n_single=5, n_fast=4)
        mapping = rng.random() < 0.5
        mode = rng.choice(["none", "exclude", "include", "exclude", "include"])
        listed = rng.sample(MFRS, rng.randint(1, 2))
        names_listed = [mtab[x] for x in listed]
        kwargs = {"build_network_map": mapping}
        if mode == "exclude":
            kwargs["exclude_manufacturer_code"] = [case_variant(n, rng) for n in names_listed]
        elif mode == "include":
            kwargs["include_manufacturer_code"] = [case_variant(n, rng) for n in names_listed]
        claim_filtered = rng.random() < 0.3
        if claim_filtered:
            kwargs["exclude_pgns"] = [rng.choice([60928, "isoAddressClaim", "ISOADDRESSCLAIM"])]
        low = {n.lower() for n in names_listed}
        sources = hist.pick_sources(rng, 4)
        shared = hist.claim_name(hist.pick_unique_number(rng), rng.choice(MFRS))
        claims = {}
        for s in sources:
            claims[s] = [hist.claim_name(hist.pick_unique_number(rng), rng.choice(MFRS), inst_lo=rng.randrange(7), inst_hi=rng.randrange(30),
                                         function=rng.choice([130, 140, 150]), dev_class=rng.choice([25, 60, 75]),
                                         sys_inst=rng.randrange(14), industry=rng.choice([4, 0, 1]), aac=rng.randrange(2))
                         for _ in range(2)] + ([shared] if s in sources[:2] else [])
        # re-claims that differ from an earlier NAME in a single sub-field only (same unique number, other
        # manufacturer / instance / function / class / system instance / industry / capability bit)
        for sx in sources:
            comp = dict(unique=rng.randrange((1 << 21) - 3), mfr=rng.choice(MFRS), inst_lo=rng.randrange(6), inst_hi=rng.randrange(28),
                        function=rng.choice([130, 140, 150]), dev_class=rng.choice([25, 60, 75]), sys_inst=rng.randrange(12),
                        industry=4, aac=1)
            change = rng.choice(["mfr", "inst_lo", "inst_hi", "function", "dev_class", "sys_inst", "industry", "aac"])
            comp2 = dict(comp)
            comp2[change] = {"mfr": next(m for m in MFRS if m != comp["mfr"]), "inst_lo": comp["inst_lo"] + 1, "inst_hi": comp["inst_hi"] + 1,
                             "function": 160, "dev_class": 80, "sys_inst": comp["sys_inst"] + 1, "industry": 1, "aac": 0}[change]
            claims[sx] += [hist.claim_name(**comp), hist.claim_name(**comp2)]
        # a multi-function box: two addresses whose NAMEs share unique number and manufacturer (the low 32 bits) and differ
        # only in instance / function / class
        box_u, box_m = rng.randrange((1 << 21) - 3), rng.choice(MFRS)
        sa_, sb_ = rng.sample(sources, 2)
        claims[sa_] = claims[sa_] + [hist.claim_name(box_u, box_m, inst_lo=0, function=130, dev_class=25)]
        claims[sb_] = claims[sb_] + [hist.claim_name(box_u, box_m, inst_lo=1, inst_hi=3, function=150, dev_class=75)]
        # NAMEs of every kind: sub-fields at their 'not available' codes, random bits; and for two sources a NAME that is refused
        for sx in sources:
            claims[sx] = claims[sx] + [hist.pick_name(rng, MFRS)]
        for sx in sources[:2]:
            claims[sx] = claims[sx] + [hist.refused_name(rng, MFRS)]
        unclaimed = rng.choice(sources) if rng.random() < 0.5 else None
        if unclaimed:
            claims[unclaimed] = []
        events = hist.build_history(pool, rng, sources, 70 if quick else 200, claims, p_claim=0.12)
        dec = NMEA2000Decoder(**kwargs)
        ident = {}                    # src -> NAME
        frames_ok = {}                # (src, msg_no) -> all frames so far accepted
        open_seq = {}                 # stream -> sequence counter of an unfinished message the decoder may still hold
        msg_state = {}
        returned_with_identity = withheld = changed = 0
        bad = None
        handed_out = []               # (position, message, identity it was returned with)
        for pos, ev in enumerate(events):
            kind, r = hist.safe_feed_any(dec, ev, rng) if c % 2 else hist.safe_feed(dec, ev)
            if ev.tag == "claim" and int.from_bytes(ev.data, "little") in hist.REFUSED_NAMES:
                # a claim with an out-of-range field: refused like any such frame (or, if a library accepts it, not judged);
                # the address keeps the identity it had
                acc.count("refused_claims_in_histories")
                if kind != "exc":
                    ident[ev.src] = int.from_bytes(ev.data, "little") if not claim_filtered or r is not None else ident.get(ev.src)
                continue
            if kind == "exc":
                bad = (pos, "decoder-raised", r)
                break
            if ev.tag == "claim":
                name = int.from_bytes(ev.data, "little")
                if ident.get(ev.src) not in (None, name):
                    changed += 1
                ident[ev.src] = name
                acc.count("claims_seen")
                if claim_filtered:
                    if r is not None:
                        bad = (pos, "filtered-claim-returned", None)
                        break
                    continue
                if r is None:
                    bad = (pos, "claim-not-returned", None)
                    break
                if project.iso_proj(r.source_iso_name) != ref_identity(dbx, name):
                    bad = (pos, "claim-identity-wrong", (project.iso_proj(r.source_iso_name), ref_identity(dbx, name)))
                    break
                acc.count("identities_compared")
                handed_out.append((pos, r, ref_identity(dbx, name)))
                continue
            # data frame: per-frame withholding status
            name = ident.get(ev.src)
            allowed = True
            judged = True
            if name is None:
                if mapping:
                    allowed = False
            else:
                mfr = ref_identity(dbx, name)[1]
                if mfr is None:
                    judged = mode == "none"
                else:
                    if mode == "exclude" and mfr.lower() in low:
                        allowed = False
                    if mode == "include" and mfr.lower() not in low:
                        allowed = False
            key = (ev.src, ev.msg_no)
            st = frames_ok.get(key, (True, True))
            frames_ok[key] = (st[0] and allowed, st[1] and judged)
            if ev.tag == "fast":
                # The manufacturer lists act on frames, before reassembly. A message of which only some frames passed
                # stays behind unfinished; when the sender's 3-bit sequence counter comes round to the same value
                # while the messages in between were withheld, the decoder sees two consecutive messages with one
                # counter - the case the standard excludes (C04's quantifier) - and may combine their frames. Every
                # frame of such a combination passed the lists, so nothing leaks; what is returned when is not judged.
                skey = (ev.pgn, ev.src, ev.dst)
                seq = ev.data[0] >> 5
                if key not in msg_state:
                    msg_state[key] = {"tainted": open_seq.get(skey) == seq or not judged and skey in open_seq, "first_passed": False, "dropped": False}
                ms = msg_state[key]
                passed = allowed or not judged
                if (ev.data[0] & 0x1F) == 0 and passed and not ms["tainted"]:
                    ms["first_passed"] = True
                    open_seq[skey] = seq            # the decoder starts over with this counter
                if not passed:
                    ms["dropped"] = True
                if ev.last:
                    if ms["first_passed"] and not ms["dropped"] and not ms["tainted"]:
                        open_seq.pop(skey, None)      # complete: nothing stays behind
                    if ms["tainted"]:
                        frames_ok.pop(key, None)
                        acc.count("messages_not_judged_same_counter_after_withheld_gap")
                        msg_state.pop(key)
                        continue
                    msg_state.pop(key)
                elif ms["tainted"]:
                    continue
            if not ev.last:
                if r is not None:
                    bad = (pos, "message-before-last-frame", None)
                    break
                continue
            all_allowed, all_judged = frames_ok.pop(key)
            if not all_judged:
                acc.count("unknown_manufacturer_not_judged")
                continue
            if not all_allowed:
                if r is not None:
                    why = "message-before-claim-with-mapping-on" if (name is None and mapping) else "excluded-manufacturer-traffic-returned"
                    bad = (pos, why, project.iso_proj(r.source_iso_name))
                    break
                withheld += 1
                acc.count("withheld_as_expected")
                continue
            if r is None:
                bad = (pos, "permitted-message-withheld", None)
                break
            want = ref_identity(dbx, name) if name is not None else None
            got = project.iso_proj(r.source_iso_name)
            if got != want:
                why = "identity-of-other-or-stale-claim" if got is not None else "identity-missing"
                bad = (pos, why, (got, want))
                break
            acc.count("identities_compared")
            handed_out.append((pos, r, want))
            if want is not None:
                returned_with_identity += 1
        # a message carries the identity its source had when it was returned - also when it is looked at later (it may still be
        # waiting in a queue): later claims and re-claims of the address do not rewrite it
        if bad is None:
            for pos_, r_, want_ in handed_out:
                acc.count("identities_re_read_at_the_end")
                if project.iso_proj(r_.source_iso_name) != want_:
                    bad = (pos_, "identity-of-returned-message-changed-later", (project.iso_proj(r_.source_iso_name), want_))
                    break
        acc.case((repr(kwargs), tuple(tuple(e.brief()) for e in events)) if (returned_with_identity and (withheld or changed)) else None)
        acc.cover("configs", f"mapping={mapping}/{mode}/claim_filtered={claim_filtered}")
        if bad:
            pos, why, detail = bad
            acc.violation(why, f"config {kwargs}: position {pos}: {why} {detail!r}"[:600],
                          {"config": repr(kwargs), "position": pos, "detail": repr(detail), "events": [e.brief() for e in events[:pos + 1]][-40:],
                           "same_source_before": [[i] + list(e.brief()) for i, e in enumerate(events[:pos + 1])
                                                  if e.src == events[pos].src and (e.tag == "claim" or (e.pgn, e.dst) == (events[pos].pgn, events[pos].dst))][-60:]})
        if c % 13 == 0:
            acc.sample({"config": repr(kwargs), "events": len(events), "with_identity": returned_with_identity, "withheld": withheld, "reclaims": changed})


def replay(w, acc):
    acc.note("replay: witness lists configuration and events up to the failing position; re-run ./check C11")
