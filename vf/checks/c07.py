"""C07 - the same CAN frame decodes identically through every input format."""
from __future__ import annotations

from ..lib import NMEA2000Decoder
from .. import refdb, gen, wire, project

ID = "C07"
LEVEL = "exploration"
RULE = ("cases = one (identifier, data) frame - or one fast-packet payload - rendered by harness-side packers in every "
        "input format and variant (EByte, USB, Yacht Devices R/T upper/lower hex, Actisense with several timestamps, "
        "canboat plain with both timestamp syntaxes; fast packets frame-wise via 4 frame-level routes vs pre-assembled "
        "via 2 whole-message routes) and decoded by fresh decoders, by decoders that live for the whole shard (each transmission twice) and by one decoder per format alive together and fed in lockstep; outcomes (message projection | None | error) must "
        "be pairwise equal; non-trivial = at least two routes returned a message and were compared; distinct = "
        "distinct (identifier, data/payload)")
ASSUMPTIONS = ["harness packers (vf.wire) follow the gateway format documents", "timestamps and raw_can_data are not compared",
               "exceptions are compared by kind only (all routes must fail or none)"]
REQUIRED_COUNTERS = ["route_pairs_compared", "single_frame_cases", "fast_packet_cases"]
SHARD_TIMEOUT = {"quick": 300, "thorough": 3000}


def shards(tier, seed):
    n = 16 if tier == "quick" else 64
    return [{"name": f"defs-{i}of{n}", "i": i, "n": n, "tier": tier, "seed": seed} for i in range(n)]


def outcome(fn):
    try:
        m = fn()
    except Exception as e:  # noqa: BLE001
        return ("exc", type(e).__name__)
    if m is None:
        return ("none",)
    return ("msg", project.msg_proj(m, with_hash=True))


def single_routes(prio, pgn, src, dst, data: bytes, rng, settings=None):
    ident = wire.can_id(prio, pgn, src, dst)
    pdu1 = ((pgn >> 8) & 0xFF) < 240
    d_eff = dst if pdu1 else 255
    D = NMEA2000Decoder if not settings else (lambda: NMEA2000Decoder(**settings))
    ts_a = rng.choice(["A000000.000", "A000057.055", "A999999.999", "A173321.107"])
    ts_y = rng.choice(["00:00:00.000", "23:59:59.999", "17:33:21.107"])
    return {
        "ebyte": lambda: D().decode_tcp(wire.ebyte_frame(ident, data)),
        "ebyte_ffpad": lambda: D().decode_tcp(wire.ebyte_frame(ident, data, pad=0xFF)),
        "usb": lambda: D().decode_usb(wire.usb_frame(ident, data)),
        "usb_ffpad": lambda: D().decode_usb(wire.usb_frame(ident, data, pad=0xFF)),
        "plain_extra_bytes": lambda: D().decode_basic_string(wire.plain_line(prio, pgn, src, d_eff, data) + ",ff,ee"[:3 * (8 - len(data))]),
        "yd_R": lambda: D().decode_yacht_devices_string(wire.yd_line(ident, data, "R", ts_y).strip()),
        "yd_T_lower": lambda: D().decode_yacht_devices_string(wire.yd_line(ident, data, "T", ts_y, lower=True).strip()),
        "yd_R_eol": lambda: D().decode_yacht_devices_string(wire.yd_line(ident, data, "R", ts_y)),
        "actisense": lambda: D().decode_actisense_string(wire.actisense_line(prio, pgn, src, d_eff, data, ts_a)),
        "actisense_lower": lambda: D().decode_actisense_string(wire.actisense_line(prio, pgn, src, d_eff, data, ts_a, lower=True)),
        "ebyte_bytearray": lambda: D().decode_tcp(bytearray(wire.ebyte_frame(ident, data))),
        "usb_bytearray": lambda: D().decode_usb(bytearray(wire.usb_frame(ident, data))),
        "actisense_eol": lambda: D().decode_actisense_string(wire.actisense_line(prio, pgn, src, d_eff, data, ts_a) + "\r\n"),
        "plain_eol": lambda: D().decode_basic_string(wire.plain_line(prio, pgn, src, d_eff, data) + "\n"),
        "plain_dash": lambda: D().decode_basic_string(wire.plain_line(prio, pgn, src, d_eff, data, "2024-05-06-07:08:09.123")),
        "plain_iso_upper": lambda: D().decode_basic_string(wire.plain_line(prio, pgn, src, d_eff, data, "2024-05-06T07:08:09.123Z", lower=False)),
    }


LONG_LIVED: dict = {}


CHATTER = {"claims": 0}


def _chatter(dec, kind, src, dst, k):
    """Other devices announce themselves between two frames of the message: first claims and take-overs by another NAME, from
    addresses that resemble the source or the destination of the transfer (never from the source itself)."""
    from .. import hist
    for a_ in hist.related_addresses(src, dst)[:4]:
        name = hist.claim_name(5000 + 17 * k + a_, 1851 if k % 2 else 229).to_bytes(8, "little")
        ident = wire.can_id(6, 60928, a_, 255)
        try:
            if kind == "ebyte":
                dec.decode_tcp(wire.ebyte_frame(ident, name))
            elif kind == "usb":
                dec.decode_usb(wire.usb_frame(ident, name))
            elif kind == "yd":
                dec.decode_yacht_devices_string(wire.yd_line(ident, name).strip())
            else:
                dec.decode_basic_string(wire.plain_line(6, 60928, a_, 255, name))
        except Exception:  # noqa: BLE001
            pass
        CHATTER["claims"] += 1


def framewise(kind, prio, pgn, src, dst, frames, tpad=0, long_lived=None, chatter=False, late_repeat=False, settings=None, before=None):
    ident = wire.can_id(prio, pgn, src, dst)
    pdu1 = ((pgn >> 8) & 0xFF) < 240
    d_eff = dst if pdu1 else 255

    def run():
        # long_lived: one decoder per route that has already seen every earlier case of this shard, including
        # an identical transmission of this very message (same stream, same sequence counter)
        dec = NMEA2000Decoder(**(settings or {})) if long_lived is None else LONG_LIVED.setdefault(long_lived, NMEA2000Decoder())
        r = None
        def give(f):
            if kind == "ebyte":
                return dec.decode_tcp(wire.ebyte_frame(ident, f, pad=tpad))
            if kind == "usb":
                return dec.decode_usb(wire.usb_frame(ident, f, pad=tpad))
            if kind == "yd":
                return dec.decode_yacht_devices_string(wire.yd_line(ident, f).strip())
            return dec.decode_basic_string(wire.plain_line(prio, pgn, src, d_eff, f) + (",ff,ee"[:3 * (8 - len(f))] if tpad else ""))
        for f in (before or []):
            # another message of the same stream first (one that this decoder's id filter drops)
            try:
                give(f)
            except Exception:  # noqa: BLE001
                pass
        prev = []
        if late_repeat and len(frames) > 1:
            # the message before this one on the same stream (same content, the previous sequence counter) went through in full;
            # the gateway repeats its LAST frame late, after this message's first frame
            prev = [bytes([((((f[0] >> 5) + 7) % 8) << 5) | (f[0] & 0x1F)]) + f[1:] for f in frames]
            for f in prev:
                try:
                    give(f)
                except Exception:  # noqa: BLE001
                    pass
        for k, f in enumerate(frames):
            if chatter:
                _chatter(dec, kind, src, dst, k)
            if prev and k == 1:
                try:
                    give(prev[-1])
                except Exception:  # noqa: BLE001
                    pass
            r = give(f)
            if r is not None and k < len(frames) - 1:
                raise AssertionError("message before last frame")
        return r
    return run


def lockstep(prio, pgn, src, dst, frames):
    """One decoder per frame-level format, all alive at the same time (an application listening to several
    gateways): frame k is given to every one of them before frame k+1 goes to any."""
    ident = wire.can_id(prio, pgn, src, dst)
    pdu1 = ((pgn >> 8) & 0xFF) < 240
    d_eff = dst if pdu1 else 255
    kinds = ["ebyte", "usb", "yd", "plain"]
    decs = {k: NMEA2000Decoder() for k in kinds}
    outs = {k: ("none",) for k in kinds}
    for n, f in enumerate(frames):
        for k in kinds:
            if outs[k][0] == "exc":
                continue
            dec = decs[k]
            if k == "ebyte":
                fn = lambda: dec.decode_tcp(wire.ebyte_frame(ident, f))          # noqa: E731
            elif k == "usb":
                fn = lambda: dec.decode_usb(wire.usb_frame(ident, f))            # noqa: E731
            elif k == "yd":
                fn = lambda: dec.decode_yacht_devices_string(wire.yd_line(ident, f).strip())      # noqa: E731
            else:
                fn = lambda: dec.decode_basic_string(wire.plain_line(prio, pgn, src, d_eff, f))    # noqa: E731
            o = outcome(fn)
            if o[0] == "msg" and n < len(frames) - 1:
                o = ("exc", "AssertionError")
            outs[k] = o
    return {f"{k}_frames_lockstep": o for k, o in outs.items()}


def compare(outs: dict, acc, w):
    names = list(outs)
    ref_name = names[0]
    msgs = sum(1 for o in outs.values() if o[0] == "msg")
    for n in names[1:]:
        acc.count("route_pairs_compared")
        if outs[n] != outs[ref_name]:
            a, b = outs[ref_name], outs[n]
            detail = ""
            if a[0] == b[0] == "msg":
                for i, (x, y) in enumerate(zip(a[1], b[1])):
                    if x != y:
                        if i == 7:
                            for fx, fy in zip(x, y):
                                if fx != fy:
                                    detail = f"field {fx[0]}: {fx[3]!r}/{fx[4]!r} vs {fy[3]!r}/{fy[4]!r}"
                                    break
                        else:
                            detail = f"header[{i}] {x!r} vs {y!r}"
                        break
            else:
                detail = f"{a[0]} vs {b[0]} {a[1] if a[0] == 'exc' else ''} {b[1] if b[0] == 'exc' else ''}"
            key = "format-routes-disagree:" + ("fast" if w.get("fast") else "single")
            acc.violation(key, f"{w['definition']}: route {ref_name} and {n} disagree: {detail}", dict(w, routes=[ref_name, n], detail=detail))
    return msgs


def run_shard(spec, acc):
    dbx = refdb.db()
    rng = gen.rng_for(spec["seed"], ID, spec["name"])
    quick = spec["tier"] == "quick"
    literal_cases(spec, acc)
    if spec["i"] % 4 == 0:
        shared_settings_cases(spec, acc)
    defs = [d for d in dbx.defs if d.supported and d.type in ("Single", "Fast")]
    defs = [d for k, d in enumerate(defs) if k % spec["n"] == spec["i"]]
    n_cases = 40 if quick else 3000
    for d in defs:
        for c in range(n_cases):
            prio, src, dst = rng.randrange(8), rng.randrange(254), rng.choice([255, rng.randrange(254)])
            if d.fixed_layout:
                raws = gen.base_raws(d, rng, dbx)
                if c % 3 == 1:
                    fs = [f for f in d.fields if f.match is None and f.bits is not None]
                    for f in rng.sample(fs, min(2, len(fs))):
                        cl = list(gen.field_classes(f, rng, 1, dbx))
                        raws[f.order] = rng.choice(cl)[1]
                payload = dbx.pack(d, raws)
                nb = d.length if d.length is not None else (d.total_bits() + 7) // 8
                last = d.fields[-1]
                if last.ftype == "BINARY" and d.fallback and d.type == "Fast" and last.off % 8 == 0 and c % 4 != 3:
                    # variable-length binary tail (proprietary fallbacks): any length, last byte non-zero
                    nb = rng.randint(last.off // 8 + 1, nb)
                    payload &= (1 << (nb * 8)) - 1
                    payload |= rng.randrange(1, 256) << ((nb - 1) * 8)
                    payload &= (1 << (nb * 8)) - 1
                elif last.ftype == "BINARY" and d.fallback and d.type == "Single" and c % 2 == 0:
                    nb = rng.randint(max(3, last.off // 8 + 1), 8)       # short single frame: declared length < 8
                    payload &= (1 << (nb * 8)) - 1
                elif c % 7 == 6:
                    payload = rng.getrandbits(nb * 8)
                    for f in d.match_fields:
                        payload = (payload & ~(f.mask << f.off)) | (f.match << f.off)
            else:
                from .c01 import variable_cases
                vc = list(variable_cases(dbx, d, rng, 1))
                if not vc:
                    continue
                _, payload, nb, _ = vc[0]
            if d.fallback:
                for _ in range(20):
                    if dbx.select(d.pgn, payload) is d:
                        break
                    payload ^= rng.getrandbits(16)        # move off the siblings' match values
                else:
                    continue
            pb = payload.to_bytes(nb, "little")
            w = {"definition": d.id, "pgn": d.pgn, "prio": prio, "src": src, "dst": dst, "payload_hex": pb.hex()}
            if d.type == "Single":
                if nb > 8:
                    continue
                outs = {n: outcome(fn) for n, fn in single_routes(prio, d.pgn, src, dst, pb, rng).items()}
                msgs = compare(outs, acc, w)
                if c % 5 == 2:
                    # the same frame on decoders that build the network map and have not heard a claim from this source: every
                    # format carries its own notion of time (uptime, time of day, a date, none) - the outcome is one and the same
                    outs_m = {n + "+network_map": outcome(fn) for n, fn in single_routes(prio, d.pgn, src, dst, pb, rng, {"build_network_map": True}).items()}
                    compare(outs_m, acc, dict(w, settings="build_network_map=True, source unclaimed"))
                    acc.count("network_map_route_sets_compared")
                acc.case((d.pgn, prio, src, dst, pb) if msgs >= 2 else None)
                acc.count("single_frame_cases")
                acc.cover("outcome_kinds", outs["ebyte"][0])
            else:
                if nb > 223:
                    continue
                seq = rng.randrange(8)
                pad = rng.choice([None, 0xFF, 0x00])
                frames = wire.fast_frames(pb, seq, pad)
                pdu1 = ((d.pgn >> 8) & 0xFF) < 240
                d_eff = dst if pdu1 else 255
                D = NMEA2000Decoder
                routes = {
                    "actisense_whole": lambda: D().decode_actisense_string(wire.actisense_line(prio, d.pgn, src, d_eff, pb)),
                    "plain_whole": lambda: D().decode_basic_string(wire.plain_line(prio, d.pgn, src, d_eff, pb), already_combined=True),
                    "ebyte_frames": framewise("ebyte", prio, d.pgn, src, dst, frames),
                    "usb_frames": framewise("usb", prio, d.pgn, src, dst, frames),
                    "yd_frames": framewise("yd", prio, d.pgn, src, dst, frames),
                    "plain_frames": framewise("plain", prio, d.pgn, src, dst, frames),
                    # the bus is not silent while a message is in transit: other devices claim and re-claim addresses
                    "ebyte_frames_between_claims": framewise("ebyte", prio, d.pgn, src, dst, frames, chatter=True),
                    # a late repeat of the previous message's last frame arrives after this message's first frame
                    "usb_frames_with_late_repeat": framewise("usb", prio, d.pgn, src, dst, frames, late_repeat=True),
                    "plain_frames_with_late_repeat": framewise("plain", prio, d.pgn, src, dst, frames, late_repeat=True),
                    # transport-level padding after the declared data length (length nibble / byte / field governs)
                    "ebyte_frames_tpad": framewise("ebyte", prio, d.pgn, src, dst, frames, 0xFF),
                    "usb_frames_tpad": framewise("usb", prio, d.pgn, src, dst, frames, 0xFF),
                    "plain_frames_extra": framewise("plain", prio, d.pgn, src, dst, frames, 0xFF),
                    # the same transmission twice on decoders that live for the whole shard
                    "ebyte_frames_longlived_1st": framewise("ebyte", prio, d.pgn, src, dst, frames, long_lived="ebyte"),
                    "ebyte_frames_longlived_2nd": framewise("ebyte", prio, d.pgn, src, dst, frames, long_lived="ebyte"),
                    "usb_frames_longlived_1st": framewise("usb", prio, d.pgn, src, dst, frames, long_lived="usb"),
                    "usb_frames_longlived_2nd": framewise("usb", prio, d.pgn, src, dst, frames, long_lived="usb"),
                    "yd_frames_longlived_1st": framewise("yd", prio, d.pgn, src, dst, frames, long_lived="yd"),
                    "yd_frames_longlived_2nd": framewise("yd", prio, d.pgn, src, dst, frames, long_lived="yd"),
                }
                # the long-lived decoders see every transmission, also those whose payload is rejected: a complete
                # message that fails to decode must leave nothing behind (repeated transmission, same counter)
                # one long-lived decoder that is given whole messages and frame-wise transmissions alternately, in an
                # order that changes from case to case (an application reading a log file and a gateway)
                mixed = [("mixed_actisense_whole", lambda: LONG_LIVED.setdefault("mixed", D()).decode_actisense_string(wire.actisense_line(prio, d.pgn, src, d_eff, pb))),
                         ("mixed_ebyte_frames", framewise("ebyte", prio, d.pgn, src, dst, frames, long_lived="mixed")),
                         ("mixed_plain_whole", lambda: LONG_LIVED.setdefault("mixed", D()).decode_basic_string(wire.plain_line(prio, d.pgn, src, d_eff, pb), already_combined=True)),
                         ("mixed_usb_frames", framewise("usb", prio, d.pgn, src, dst, frames, long_lived="mixed")),
                         ("mixed_plain_frames", framewise("plain", prio, d.pgn, src, dst, frames, long_lived="mixed"))]
                sibs_ = [x for x in dbx.by_pgn.get(d.pgn, []) if x is not d and x.supported and x.fixed_layout and (x.length or 0) > 8]
                if sibs_ and c % 2 == 0 and dbx.select(d.pgn, int.from_bytes(pb, "little")) is d:          # (the payload really is this definition's, not a sibling's)
                    # decoders whose id filter drops a sibling definition of this PGN, right after a message of that sibling on the
                    # same stream: frame by frame and pre-assembled alike, this message comes through
                    sib = sibs_[c % len(sibs_)]
                    ps_ = dbx.pack(sib, gen.base_raws(sib, rng, dbx))
                    if dbx.select(sib.pgn, ps_) is sib:
                        pbs_ = ps_.to_bytes(sib.length, "little")
                        fs_ = wire.fast_frames(pbs_, (seq + 5) % 8, 0xFF)
                        flt = {"exclude_pgns": [sib.id]}

                        def whole_after(pbs_=pbs_, flt=flt):
                            dd = D(**flt)
                            try:
                                dd.decode_basic_string(wire.plain_line(prio, d.pgn, src, d_eff, pbs_), already_combined=True)
                            except Exception:  # noqa: BLE001
                                pass
                            return dd.decode_basic_string(wire.plain_line(prio, d.pgn, src, d_eff, pb), already_combined=True)
                        routes["plain_whole_after_a_filtered_sibling"] = whole_after
                        routes["ebyte_frames_after_a_filtered_sibling"] = framewise("ebyte", prio, d.pgn, src, dst, frames, settings=flt, before=fs_)
                        routes["yd_frames_after_a_filtered_sibling"] = framewise("yd", prio, d.pgn, src, dst, frames, settings=flt, before=fs_)
                        acc.count("cases_with_a_filtered_sibling_first")
                if c % 3 == 0:
                    for k_ in ("usb", "yd", "plain"):
                        routes[f"{k_}_frames_between_claims"] = framewise(k_, prio, d.pgn, src, dst, frames, chatter=True)
                rot = c % len(mixed)
                for n_, fn_ in mixed[rot:] + mixed[:rot]:
                    routes[n_] = fn_
                outs = {n: outcome(fn) for n, fn in routes.items()}
                outs.update(lockstep(prio, d.pgn, src, dst, frames))
                w.update({"fast": True, "seq": seq, "pad": pad})
                msgs = compare(outs, acc, w)
                acc.case((d.pgn, prio, src, dst, pb, pad) if msgs >= 2 else None)
                acc.count("fast_packet_cases")
                acc.count("address_claims_between_frames", CHATTER["claims"])
                CHATTER["claims"] = 0
                acc.cover("padding", pad)
            acc.cover("definitions", d.id)
            if acc.evaluations % 401 == 0:
                acc.sample(w)


def shared_settings_cases(spec, acc):
    """One settings object for all the decoders of an application: the same list / dict OBJECTS are passed to the constructor
    of every route's decoder, one after the other (here the library's class is constructed directly, without the harness'
    own games at construction time). The routes still agree - for address claims, which the filters treat specially, and for
    ordinary frames."""
    from ..lib import _RealDecoder, PhysicalQuantities
    from .. import hist
    rng = gen.rng_for(spec["seed"], ID, spec["name"], "shared-settings")
    dbx = refdb.db()
    singles = [d for d in dbx.defs if d.supported and d.fixed_layout and d.type == "Single" and (d.length or 9) <= 8 and not d.fallback
               and not any(f.offset is not None for f in d.fields)]
    for c in range(40 if spec["tier"] == "quick" else 400):
        d = rng.choice(singles)
        other = rng.choice(singles)
        settings = [{"exclude_pgns": [60928, other.pgn]}, {"exclude_pgns": [other.pgn, 60928, 126996]}, {"exclude_pgns": ["isoAddressClaim", other.id]},
                    {"include_pgns": [d.pgn, 60928]}, {"exclude_pgns": [60928], "preferred_units": {PhysicalQuantities.TEMPERATURE: "C"}},
                    {"exclude_manufacturer_code": ["Garmin"], "exclude_pgns": [60928]}][c % 6]
        src = rng.randrange(1, 250)
        claim = hist.pick_name(rng, hostile=False).to_bytes(8, "little")
        pb = dbx.pack(d, gen.base_raws(d, rng, dbx)).to_bytes(d.length, "little")
        decs = {}

        def dec_for(route):
            if route not in decs:
                decs[route] = _RealDecoder(**settings)          # the SAME argument objects for every route's decoder
            return decs[route]
        for label, pgn, data, prio in (("address-claim", 60928, claim, 6), ("data", d.pgn, pb, 3), ("address-claim-again", 60928, claim, 6)):
            ident = wire.can_id(prio, pgn, src, 255)
            routes = {
                "ebyte": lambda: dec_for("ebyte").decode_tcp(wire.ebyte_frame(ident, data)),
                "usb": lambda: dec_for("usb").decode_usb(wire.usb_frame(ident, data)),
                "yd": lambda: dec_for("yd").decode_yacht_devices_string(wire.yd_line(ident, data).strip()),
                "actisense": lambda: dec_for("actisense").decode_actisense_string(wire.actisense_line(prio, pgn, src, 255, data)),
                "plain": lambda: dec_for("plain").decode_basic_string(wire.plain_line(prio, pgn, src, 255, data), already_combined=True),
            }
            outs = {n: outcome(fn) for n, fn in routes.items()}
            w = {"definition": label if pgn == 60928 else d.id, "pgn": pgn, "settings": repr(settings), "payload_hex": data.hex(), "shared_settings_objects": True}
            msgs = compare(outs, acc, w)
            acc.case(("shared-settings", c, label) if msgs >= 2 or label.startswith("address-claim") else None)
            acc.count("route_sets_compared_with_shared_settings_objects")


def literal_cases(spec, acc):
    """Frames whose data carries byte strings that the code under test mentions literally (start markers, gateway
    notices, separators ...): data is data, whatever it looks like - every route decodes it alike."""
    rng = gen.rng_for(spec["seed"], ID, spec["name"], "literals")
    lits = [b for b in gen.harvested_byte_strings() if 2 <= len(b) <= 13]
    for k, lit in enumerate(lits):
        if k % spec["n"] != spec["i"]:
            continue
        for pb in gen.proprietary_payloads_with(lit, rng, fast=False):
            prio, src, dst = rng.randrange(8), rng.randrange(254), 255
            w = {"definition": "catch-all 65280 / 61184", "pgn": 65280, "prio": prio, "src": src, "dst": dst, "payload_hex": pb.hex(), "literal": lit.hex()}
            for pgn in (65280, 61184):
                outs = {n: outcome(fn) for n, fn in single_routes(prio, pgn, src, 17 if pgn == 61184 else 255, pb, rng).items()}
                msgs = compare(outs, acc, dict(w, pgn=pgn))
                acc.case((pgn, prio, src, dst, pb) if msgs >= 2 else None)
                acc.count("single_frame_cases")
                acc.count("cases_carrying_a_harvested_literal")
        for pb in gen.proprietary_payloads_with(lit, rng, fast=True):
            prio, src = rng.randrange(8), rng.randrange(254)
            for pgn, dst in ((130816, 255), (126720, 44)):
                frames = wire.fast_frames(pb, rng.randrange(8), 0xFF)
                D = NMEA2000Decoder
                routes = {"actisense_whole": lambda: D().decode_actisense_string(wire.actisense_line(prio, pgn, src, dst, pb)),
                          "ebyte_frames": framewise("ebyte", prio, pgn, src, dst, frames),
                          "usb_frames": framewise("usb", prio, pgn, src, dst, frames),
                          "yd_frames": framewise("yd", prio, pgn, src, dst, frames),
                          "plain_frames": framewise("plain", prio, pgn, src, dst, frames)}
                outs = {n: outcome(fn) for n, fn in routes.items()}
                w = {"definition": f"catch-all {pgn}", "pgn": pgn, "prio": prio, "src": src, "dst": dst, "payload_hex": pb.hex(), "literal": lit.hex(), "fast": True}
                msgs = compare(outs, acc, w)
                acc.case((pgn, prio, src, dst, pb) if msgs >= 2 else None)
                acc.count("fast_packet_cases")
                acc.count("address_claims_between_frames", CHATTER["claims"])
                CHATTER["claims"] = 0
                acc.count("cases_carrying_a_harvested_literal")


def replay(w, acc):
    acc.note("replay: witness carries definition/prio/src/dst/payload; re-run ./check C07 (deterministic per seed)")
