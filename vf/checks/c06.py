"""C06 - every gateway wire format round-trips and obeys its fixed framing."""
from __future__ import annotations

from ..lib import NMEA2000Decoder, NMEA2000Encoder
from .. import refdb, gen, wire, project

ID = "C06"
LEVEL = "exploration"
RULE = ("cases = (encodable definition, payload, addressing, format): the message is encoded by the real encoder in "
        "EByte / USB / Yacht Devices / Actisense form; size, terminator and checksum predicates are evaluated on every "
        "packet, the packets are decoded by the same format's real decoder and compared with the pre-assembled decode "
        "of the codec's payload; per sampled USB packet all 18 x 255 single-byte corruptions must yield no message; "
        "concatenated packets are re-cut by the real client receive paths in the simulator; non-trivial = packets "
        "produced and all predicates + round trip evaluated; distinct = distinct (format, definition, payload, addressing)")
ASSUMPTIONS = ["EByte frames are 13 bytes (ECAN fixed frame), USB frames 20 bytes with additive checksum over bytes 2..18, Yacht Devices RAW lines end in CR LF",
               "receive-side tokens 'A000000.000 ' / '00:00:00.000 R ' are prepended before decoding text formats",
               "value fidelity of the codec itself is C02/C09; here the reference for the round trip is the decode of the codec's payload"]
REQUIRED_COUNTERS = ["packets_checked", "format_roundtrips_compared", "usb_corruptions_tried"]
SHARD_TIMEOUT = {"quick": 300, "thorough": 3000}

FORMATS = ("ebyte", "usb", "yd", "actisense")


def shards(tier, seed):
    n = 12 if tier == "quick" else 48
    out = [{"name": f"defs-{i}of{n}", "kind": "defs", "i": i, "n": n, "tier": tier, "seed": seed} for i in range(n)]
    m = 4 if tier == "quick" else 16
    out += [{"name": f"corrupt-{i}", "kind": "corrupt", "i": i, "n": m, "tier": tier, "seed": seed} for i in range(m)]
    out += [{"name": f"stream-{c}", "kind": "stream", "client": c, "tier": tier, "seed": seed} for c in ("ebyte", "yd", "usb")]
    out += [{"name": "threads", "kind": "threads", "tier": tier, "seed": seed}]
    # what the clients put on the wire around a failing write, as a receiver on the bus sees it (old link + new link)
    out += [{"name": f"sendfail-{c}", "kind": "sendfail", "client": c, "tier": tier, "seed": seed} for c in ("ebyte", "yd", "waveshare")]
    return out


def source_message(dbx, dec, d, payload, nb):
    try:
        return dec.decode_basic_string(wire.plain_line(3, d.pgn, 7, 255, payload.to_bytes(nb, "little")), already_combined=True)
    except Exception:  # noqa: BLE001
        return None


def check_packets(fmt, pk, acc, w):
    """Framing predicates on the packets of one message."""
    if fmt == "ebyte":
        for p in pk:
            acc.count("packets_checked")
            if len(p) != 13:
                n = p[0] & 0x0F if p else -1
                key = "ebyte-packet-not-13-bytes:short-data" if (len(p) == 5 + n and n < 8) else "ebyte-packet-not-13-bytes"
                acc.violation(key, f"{w['definition']}: EByte packet of {len(p)} bytes (data length {n})", dict(w, packet=p.hex()))
            elif not (p[0] & 0x80) or (p[0] & 0x0F) > 8:
                acc.violation("ebyte-type-byte", f"{w['definition']}: type byte {p[0]:#x}", dict(w, packet=p.hex()))
    elif fmt == "usb":
        for p in pk:
            acc.count("packets_checked")
            if len(p) != 20:
                acc.violation("usb-packet-not-20-bytes", f"{w['definition']}: USB packet of {len(p)} bytes", dict(w, packet=p.hex()))
                continue
            if p[0] != 0xAA or p[1] != 0x55:
                acc.violation("usb-header", f"{w['definition']}: header {p[:2].hex()}", dict(w, packet=p.hex()))
            if wire.usb_checksum(p) != p[19]:
                acc.violation("usb-checksum-invalid", f"{w['definition']}: checksum {p[19]:#x} expected {wire.usb_checksum(p):#x}", dict(w, packet=p.hex()))
            if p[9] > 8 or any(p[10 + p[9]:18]):
                acc.violation("usb-padding", f"{w['definition']}: length {p[9]} / non-zero padding", dict(w, packet=p.hex()))
    elif fmt == "yd":
        for p in pk:
            acc.count("packets_checked")
            if not isinstance(p, (bytes, bytearray)) or not p.endswith(b"\r\n") or b"\r" in p[:-2] or b"\n" in p[:-2]:
                acc.violation("yd-line-termination", f"{w['definition']}: packet is not exactly one CR LF terminated line", dict(w, packet=repr(p)))


CHATTER_NO = [0]


def _chatter(dec, fmt, src, dst):
    """Between two packets of a message other devices announce themselves (address claims are ordinary bus traffic): first
    claims and take-overs by another NAME, from the destination of the transfer and from addresses that resemble its source
    or destination - never from the source itself."""
    from .. import hist
    CHATTER_NO[0] += 1
    for a_ in ([dst] if dst < 254 and dst != src else []) + hist.related_addresses(src, dst)[:3]:
        name = hist.claim_name(7000 + CHATTER_NO[0], 1851 if CHATTER_NO[0] % 2 else 229).to_bytes(8, "little")
        ident = wire.can_id(6, 60928, a_, 255)
        try:
            if fmt == "ebyte":
                dec.decode_tcp(wire.ebyte_frame(ident, name))
            elif fmt == "usb":
                dec.decode_usb(wire.usb_frame(ident, name))
            else:
                dec.decode_yacht_devices_string(wire.yd_line(ident, name).strip())
        except Exception:  # noqa: BLE001
            pass


def decode_packets(fmt, pk, dec=None, chatter=None):
    dec = dec or NMEA2000Decoder()
    r = None
    if fmt == "actisense":
        return dec.decode_actisense_string("A000000.000 " + pk)
    for k, p in enumerate(pk):
        if chatter is not None and k > 0:
            _chatter(dec, fmt, *chatter)
        if fmt == "ebyte":
            r = dec.decode_tcp(p)
        elif fmt == "usb":
            r = dec.decode_usb(p)
        else:
            r = dec.decode_yacht_devices_string("00:00:00.000 R " + p.decode("ascii").strip())
        if r is not None and k < len(pk) - 1:
            raise AssertionError("message before the last packet")
    return r


def encode(enc, fmt, m):
    return {"ebyte": enc.encode_ebyte, "usb": enc.encode_usb, "yd": enc.encode_yacht_devices, "actisense": enc.encode_actisense}[fmt](m)


def run_defs(spec, acc):
    dbx = refdb.db()
    rng = gen.rng_for(spec["seed"], ID, spec["name"])
    quick = spec["tier"] == "quick"
    src_dec = NMEA2000Decoder()
    defs = [d for d in dbx.defs if d.encodable and d.type in ("Single", "Fast")]
    # all definitions of one PGN number stay in one shard (= one process): what the encoder did for one sibling must
    # not matter for the next. Short payloads first: they are where framing goes wrong
    pgn_order = sorted({d.pgn for d in defs})
    mine = {p_ for k, p_ in enumerate(pgn_order) if k % spec["n"] == spec["i"]}
    defs = [d for d in defs if d.pgn in mine]
    defs.sort(key=lambda d: (d.length if d.length is not None else 99, d.index))
    n_payloads = 12 if quick else 600
    long_lived: dict = {}
    by_pgn: dict = {}
    for d in defs:
        by_pgn.setdefault(d.pgn, []).append(d)
    multi = [ds for ds in by_pgn.values() if len(ds) > 1]

    def interleaved():
        for ds in multi:
            for c in range(24 if quick else 600):
                one_case(dbx, rng, src_dec, long_lived, rng.choice(ds), 4 + c, acc, "interleaved-siblings")
                acc.count("interleaved_sibling_cases")
    interleaved()
    for d in defs:
        for c in range(n_payloads):
            one_case(dbx, rng, src_dec, long_lived, d, c, acc, "per-definition")
    interleaved()


ADDRESSING = [(0, 0, 255), (7, 255, 0), (3, 17, 239), (6, 253, 254)]


def one_case(dbx, rng, src_dec, long_lived, d, c, acc, label):
    from .c02 import classify_encode_error
    addressing = ADDRESSING
    nb = d.length if d.length is not None else (d.total_bits() + 7) // 8
    if True:
        if True:
            raws = gen.base_raws(d, rng, dbx)
            if c == 0:
                raws = {f.order: (f.match if f.match is not None else 0) for f in d.fields}     # all-zero message
            elif c % 2 == 1:
                fs = [f for f in d.fields if f.match is None]
                for f in rng.sample(fs, min(2, len(fs))):
                    cl = [x for x in gen.field_classes(f, rng, 1, dbx) if x[2]]
                    if cl:
                        raws[f.order] = rng.choice(cl)[1]
            payload = dbx.pack(d, raws)
            if dbx.select(d.pgn, payload) is not d:
                return
            m = source_message(dbx, src_dec, d, payload, nb)
            if m is None:
                return
            prio, src, dst = addressing[c % 4] if c < 4 else (rng.randrange(8), rng.randrange(256), rng.randrange(256))
            m.priority, m.source, m.destination = prio, src, dst
            pdu1 = ((d.pgn >> 8) & 0xFF) < 240
            enc = NMEA2000Encoder()
            try:
                codec_payload = bytes.fromhex((enc.encode_actisense(m).split() + [""])[2])
            except Exception as e:  # noqa: BLE001
                # a message the decoder made from an in-range payload is an encodable message; the mechanisms C02
                # already lists (its known findings) are left to C02
                key, fid = classify_encode_error(dbx, d, payload, e)
                if key in ("wide-field-top-codes-double-rounding", "absent-date-not-reencodable"):
                    acc.count("source_not_encodable_mechanism_judged_by_C02")
                    return
                acc.violation("encodable-message-refused", f"{d.id} ({label}): the encoder refuses a message decoded from an in-range payload: {type(e).__name__}: {e}",
                              {"definition": d.id, "label": label, "payload_hex": payload.to_bytes(nb, "little").hex()})
                return
            # "yield a message with the same ... field values": the codec's payload must carry the source's bits in
            # every field position (value-level tolerances - wide fields, non-finite floats - are C02's business)
            diff = (int.from_bytes(codec_payload, "little") ^ payload) & d.field_mask_union()
            if diff:
                bad = [f for f in d.fields if diff & (f.mask << f.off)]
                if all(f.bits > 48 or f.ftype == "FLOAT" for f in bad):
                    acc.count("payload_differs_in_wide_or_float_field_judged_by_C02")
                else:
                    f = next(f for f in bad if not (f.bits > 48 or f.ftype == "FLOAT"))
                    acc.violation("encoded-payload-differs-from-source", f"{d.id}.{f.id} ({label}): source bits {(payload >> f.off) & f.mask:#x}, encoder wrote "
                                  f"{(int.from_bytes(codec_payload, 'little') >> f.off) & f.mask:#x}",
                                  {"definition": d.id, "label": label, "payload_hex": payload.to_bytes(nb, "little").hex(), "encoded_hex": codec_payload.hex()})
            else:
                acc.count("source_bits_reproduced")
            expect = src_dec.decode_basic_string(wire.plain_line(prio, d.pgn, src, dst if pdu1 else 255, codec_payload), already_combined=True)
            for fmt in FORMATS:
                w = {"definition": d.id, "fmt": fmt, "prio": prio, "src": src, "dst": dst, "payload_hex": codec_payload.hex()}
                try:
                    pk = encode(enc, fmt, m)
                except Exception as e:  # noqa: BLE001
                    acc.violation("encode-raised", f"{d.id} {fmt}: {type(e).__name__}: {e}", w)
                    continue
                check_packets(fmt, pk, acc, w)
                acc.case((fmt, d.id, codec_payload, prio, src, dst))
                acc.cover("formats", fmt)
                acc.cover("payload_lengths", len(codec_payload))
                # the same format's decoder must accept its own encoder's packets
                try:
                    if fmt == "ebyte":
                        # a gateway delivers 13-byte frames; hand over what the receive path would cut from the stream
                        stream = b"".join(pk)
                        cut = [stream[i:i + 13] for i in range(0, len(stream), 13)]
                        if any(len(x) != 13 for x in cut) or cut != list(pk):
                            acc.count("ebyte_stream_recut_differs")
                        r = decode_packets(fmt, pk)
                    else:
                        r = decode_packets(fmt, pk)
                except Exception as e:  # noqa: BLE001
                    key = "own-packets-rejected"
                    if fmt == "actisense" and codec_payload == b"" and d.length is None:
                        key = "empty-payload-actisense-line-rejected"
                    acc.violation(key, f"{d.id} {fmt}: decoder raised {type(e).__name__}: {e}", w)
                    continue
                # the same packets once more through a decoder that lives for the whole shard (it has already
                # reassembled earlier messages of this stream, possibly with the same sequence counter)
                try:
                    r_long = decode_packets(fmt, pk, long_lived.setdefault(fmt, NMEA2000Decoder()))
                except Exception as e:  # noqa: BLE001
                    r_long = None
                    if not (fmt == "actisense" and codec_payload == b""):
                        acc.violation("own-packets-rejected:long-lived-decoder", f"{d.id} {fmt}: long-lived decoder raised {type(e).__name__}: {e}", w)
                # the same field values once more from another sender with another priority, through the same long-lived
                # decoder: the message returned first must stay what it was, the second must carry its own addressing
                if r_long is not None and fmt != "actisense":
                    snap = project.msg_proj(r_long)
                    import copy as _copy
                    m2 = _copy.deepcopy(m)
                    m2.source, m2.priority = (src + 1) % 254, (prio + 1) % 8
                    try:
                        r2 = decode_packets(fmt, encode(enc, fmt, m2), long_lived[fmt])
                    except Exception:  # noqa: BLE001
                        r2 = None
                    acc.count("repeated_payload_other_sender_checked")
                    if project.msg_proj(r_long) != snap:
                        acc.violation("returned-message-changed-by-a-later-one", f"{d.id} {fmt}: the message decoded from source {src} priority {prio} changed when the same payload "
                                      f"arrived from source {m2.source} priority {m2.priority}", w)
                    elif r2 is None or (r2.source, r2.priority) != (m2.source, m2.priority):
                        acc.violation("format-roundtrip-header-differ", f"{d.id} {fmt}: the same payload from source {m2.source} priority {m2.priority} came back as "
                                      f"{None if r2 is None else (r2.source, r2.priority)}", w)
                # the same packets on a long-lived decoder that carries a manufacturer filter naming somebody else, after the sender
                # announced itself with a NAME whose sub-fields are all 'not available' (there is no manufacturer to filter by)
                if fmt != "actisense" and r is not None and acc.evaluations % 3 == 0:
                    fd_ = long_lived.setdefault("filtered-" + fmt, NMEA2000Decoder(exclude_manufacturer_code=["Garmin"]) if fmt != "yd" else NMEA2000Decoder(include_manufacturer_code=["Garmin"]))
                    try:
                        decode_packets(fmt, {"ebyte": [wire.ebyte_frame(wire.can_id(6, 60928, src, 255), b"\xff" * 8)], "usb": [wire.usb_frame(wire.can_id(6, 60928, src, 255), b"\xff" * 8)],
                                             "yd": [wire.yd_line(wire.can_id(6, 60928, src, 255), b"\xff" * 8).split(" ", 2)[2].encode()]}[fmt], fd_)
                    except Exception:  # noqa: BLE001
                        pass
                    try:
                        r_f = decode_packets(fmt, pk, fd_)
                        e_f = None
                    except Exception as e_:  # noqa: BLE001
                        r_f, e_f = None, e_
                    acc.count("packets_decoded_under_a_manufacturer_filter_after_an_all_not_available_claim")
                    if r_f is None or project.msg_proj(r_f, with_iso=False) != project.msg_proj(r, with_iso=False):
                        acc.violation("own-packets-rejected:manufacturer-filter-and-nameless-sender", f"{d.id} {fmt}: a decoder with a manufacturer filter (naming somebody else) "
                                      f"{'raised ' + type(e_f).__name__ + ': ' + str(e_f) if e_f else 'returned nothing / something else'} for the encoder's packets after the sender "
                                      f"claimed its address with an all-'not available' NAME", w)
                # the same packets on a decoder that hears other devices claim and re-claim addresses between them (the
                # destination of the transfer among them)
                if fmt != "actisense" and len(pk) > 1 and r is not None:
                    try:
                        r_ch = decode_packets(fmt, pk, long_lived.setdefault("between-claims-" + fmt, NMEA2000Decoder()), chatter=(src, dst if pdu1 else 255))
                    except Exception:  # noqa: BLE001
                        r_ch = None
                    acc.count("multi_packet_messages_decoded_between_address_claims")
                    if r_ch is None or project.msg_proj(r_ch, with_iso=False) != project.msg_proj(r, with_iso=False):
                        acc.violation("own-packets-lost-between-address-claims", f"{d.id} {fmt}: with address claims of other devices (destination {dst} among them) between the "
                                      f"packets the message comes back as {None if r_ch is None else (r_ch.id, r_ch.source, r_ch.destination)}", w)
                # two transfers of this (addressed, multi-packet) message from ONE source to TWO destinations, packet by packet
                # in turn: each must arrive with its own addressing
                if pdu1 and len(pk) > 1 and fmt != "actisense" and r is not None:
                    import copy as _copy
                    mb = _copy.deepcopy(m)
                    mb.destination = (dst + 7) % 250
                    try:
                        pkb = encode(enc, fmt, mb)
                        dec2 = NMEA2000Decoder()
                        got2 = []
                        for pa, pb_ in zip(encode(enc, fmt, m), pkb):
                            for p_ in (pa, pb_):
                                x_ = decode_packets(fmt, [p_], dec2)
                                if x_ is not None:
                                    got2.append((x_.source, x_.destination))
                    except Exception:  # noqa: BLE001
                        got2 = None
                    acc.count("interleaved_transfers_to_two_destinations_checked")
                    if got2 is None or sorted(got2) != sorted([(src, dst), (src, mb.destination)]):
                        acc.violation("interleaved-transfers-to-two-destinations-lost", f"{d.id} {fmt}: source {src} sends the message to destinations {dst} and {mb.destination} "
                                      f"packet by packet in turn; delivered: {got2}", w)
                if r is not None and r_long is not None and project.msg_proj(r_long) != project.msg_proj(r):
                    acc.violation("long-lived-decoder-differs-from-fresh", f"{d.id} {fmt}: a decoder that saw earlier traffic decodes the encoder's packets differently", w)
                elif r is not None and r_long is None and not (fmt == "actisense" and codec_payload == b""):
                    acc.violation("own-packets-rejected:long-lived-decoder", f"{d.id} {fmt}: a decoder that saw earlier traffic returned nothing for the encoder's packets", w)
                acc.count("format_roundtrips_compared")
                if fmt == "actisense" and not pdu1 and r is not None and r.destination == dst:
                    # the Actisense text header carries the destination literally; for a broadcast PGN sent with a
                    # destination other than 255 both the literal value and 255 are 'the same addressing'
                    r.destination = 255
                if r is None:
                    acc.violation("own-packets-rejected", f"{d.id} {fmt}: decoder returned nothing for the encoder's packets", w)
                elif project.msg_proj(r) != project.msg_proj(expect):
                    a, b = project.msg_proj(r), project.msg_proj(expect)
                    what = "header" if a[:7] != b[:7] else "fields"
                    acc.violation(f"format-roundtrip-{what}-differ", f"{d.id} {fmt}: decoded {a[:7]} expected {b[:7]}", w)
            if acc.evaluations % 211 == 0:
                acc.sample({"definition": d.id, "payload_hex": codec_payload.hex(), "addressing": [prio, src, dst]})


def run_corrupt(spec, acc):
    """All 18 x 255 single-byte corruptions of USB packets: none may yield a message."""
    dbx = refdb.db()
    rng = gen.rng_for(spec["seed"], ID, spec["name"])
    quick = spec["tier"] == "quick"
    enc, dec, src_dec = NMEA2000Encoder(), NMEA2000Decoder(), NMEA2000Decoder()
    defs = [d for d in dbx.defs if d.encodable and d.type == "Single" and (d.length or 8) <= 8]
    n_packets = 5 if quick else 500
    done = 0
    while done < n_packets:
        d = rng.choice(defs)
        payload = dbx.pack(d, gen.base_raws(d, rng, dbx))
        m = source_message(dbx, src_dec, d, payload, d.length or 8)
        if m is None or dbx.select(d.pgn, payload) is not d:
            continue
        m.priority, m.source, m.destination = rng.randrange(8), rng.randrange(256), rng.randrange(256)
        try:
            pk = enc.encode_usb(m)
        except Exception:  # noqa: BLE001
            continue
        p = pk[0]
        if len(p) != 20 or dec.decode_usb(p) is None:
            continue        # judged by run_defs
        done += 1
        for pos in range(2, 20):
            for delta in range(1, 256):
                q = bytearray(p)
                q[pos] = (q[pos] + delta) & 0xFF
                acc.count("usb_corruptions_tried")
                try:
                    r = dec.decode_usb(bytes(q))
                except Exception:  # noqa: BLE001
                    r = None
                if r is not None:
                    acc.violation("corrupted-usb-packet-accepted", f"{d.id}: byte {pos} changed by {delta} still decoded",
                                  {"definition": d.id, "packet": p.hex(), "pos": pos, "delta": delta})
        acc.case(("corrupt", p))
        acc.set_exhaustive("18 positions x 255 deltas per sampled packet", True)
        acc.sample({"corrupted_packet": p.hex(), "corruptions": 18 * 255}, cap=2)


def run_stream(spec, acc):
    """Concatenated packets re-cut by the real client receive path (simulator)."""
    try:
        from .. import simgw
    except ImportError:
        acc.note("simulator not available: stream clause not exercised")
        return
    simgw.c06_stream_clause(spec, acc)


def run_threads(spec, acc):
    """An encoder and a decoder per thread (an application with one thread per gateway): what each thread's encoder produces
    is what it produces alone, and its decoder gets the message back."""
    from .. import threadwork
    n, wrong, errors = threadwork.encoder_round_trips(spec, acc, ID)
    acc.count("format_roundtrips_compared", n)
    if errors:
        acc.violation("encode-raised", f"encoders and decoders of their own in several threads: {errors[0]}", {"errors": errors[:5]})
    if wrong:
        t, did, fmt, what, detail = wrong[0]
        key = "format-roundtrip-header-differ" if what == "decoded" else "encoder-output-differs-between-threads"
        acc.violation(key, f"{did} {fmt}: thread {t} (own encoder, own decoder, other threads busy with theirs): "
                      + (f"the decoder returned {detail}" if what == "decoded" else f"the packets are not the ones this encoder produces alone (foreign identifiers: {detail})"),
                      {"definition": did, "fmt": fmt, "thread": t, "what": what, "detail": repr(detail)})


def run_sendfail(spec, acc):
    """The packets of a message cut by a failing write, then the packets of the next message on the connection the client opens
    next: decoded by ONE receiver they yield the second message and nothing that nobody sent (the scenario and the reference
    receiver are C19's; only that verdict is taken over here)."""
    from . import c19

    class _Only:
        def __init__(self, a):
            self._a = a

        def __getattr__(self, n):
            return getattr(self._a, n)

        def violation(self, key, what, w=None):
            if key.startswith("receiver-"):
                self._a.violation("own-packets-rejected:across-a-failed-send", what, w)
    c19.run_write_failure({"kind": spec["client"], "tier": spec["tier"], "seed": spec["seed"], "name": spec["name"], "what": "write_failure"}, _Only(acc))
    acc.count("format_roundtrips_compared", 0)


def run_shard(spec, acc):
    if spec["kind"] == "sendfail":
        return run_sendfail(spec, acc)
    {"defs": run_defs, "corrupt": run_corrupt, "stream": run_stream, "threads": run_threads}[spec["kind"]](spec, acc)


def replay(w, acc):
    acc.note("replay: witness carries definition/fmt/addressing/payload; re-run ./check C06 (deterministic per seed)")
