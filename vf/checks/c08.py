"""C08 - proprietary PGN definitions are selected exactly by their match fields."""
from __future__ import annotations

import itertools

from ..lib import NMEA2000Decoder
from .. import refdb, gen, wire

ID = "C08"
LEVEL = "exploration"
RULE = ("cases = payloads of multi-definition PGNs whose match-field positions carry every combination of "
        "{the definition's own match value, each sibling's value at that position, a value no sibling uses} with the "
        "remaining bits all-ones / in-range random / raw random; the observed message id (or None) is compared with "
        "the reference dispatcher (first non-fallback definition in database order whose match fields all equal, "
        "else fallback, else none); non-trivial = dispatch outcome observable (a message or None came back, or the "
        "prescribed definition is of an unsupported type and nothing came back); distinct = distinct (PGN, payload)")
ASSUMPTIONS = ["reference dispatcher = the statement's rule evaluated on canboat.json",
               "when field decoding of the prescribed definition raises (random bits out of range) the case is retried with other bits and otherwise counted unobservable, never judged",
               "a prescribed definition of an unsupported field type yields no message either way (None or 'not supported' error); both are accepted"]
REQUIRED_COUNTERS = ["dispatch_outcomes_compared", "multi_definition_pgns"]
SHARD_TIMEOUT = {"quick": 200, "thorough": 2000}


def shards(tier, seed):
    dbx = refdb.db()
    pgns = sorted(p for p, ds in dbx.by_pgn.items() if len(ds) > 1)
    out = []
    for p in pgns:
        ds = dbx.by_pgn[p]
        per = 1 if len(ds) > 8 else len(ds)         # big PGNs: one shard per definition (parallelism)
        for k in range(0, len(ds), per):
            out.append({"name": f"pgn-{p}-{k}", "pgn": p, "only": [d.id for d in ds[k:k + per]], "first": k == 0, "tier": tier, "seed": seed})
    out.append({"name": "cold-start-in-threads", "threads": True, "tier": tier, "seed": seed})
    return out


def observe(dec, pgn, payload, nb):
    line = wire.plain_line(3, pgn, 9, 255, payload.to_bytes(nb, "little"))
    try:
        m = dec.decode_basic_string(line, already_combined=True)
        return ("msg", m.id) if m is not None else ("none", None)
    except Exception as e:  # noqa: BLE001
        return ("exc", f"{type(e).__name__}: {e}")


def cold_threads(spec, acc):
    """The very first decodes of a process, issued by several threads at the same moment (each thread with a decoder of its own):
    whatever the library sets up lazily on first use of a PGN is set up while another thread is already asking. Repeated in
    several freshly forked processes (this shard has decoded nothing before it forks them). Selection must be the database's."""
    import json
    import os
    import sys
    import threading
    dbx = refdb.db()
    rng = gen.rng_for(spec["seed"], ID, spec["name"])
    quick = spec["tier"] == "quick"
    pgns = sorted(p for p, ds_ in dbx.by_pgn.items() if len(ds_) > 1)
    plan = []          # per PGN: list of (payload, nb, expected id or None)
    for p in pgns:
        items = []
        for d in dbx.by_pgn[p]:
            if not (d.supported and d.fixed_layout):
                continue
            for _ in range(2):
                pl = dbx.pack(d, gen.base_raws(d, rng, dbx))
                want = dbx.select(p, pl)
                if want is None or not want.supported:
                    continue
                nb = d.length if d.length is not None else (d.total_bits() + 7) // 8
                items.append((pl, nb, want.id))
        if items:
            plan.append((p, items))
    n_proc = 4 if quick else 24
    n_threads = 4
    total = 0
    for child_no in range(n_proc):
        rfd, wfd = os.pipe()
        pid = os.fork()
        if pid == 0:
            out = {"wrong": [], "n": 0, "errors": []}
            try:
                os.close(rfd)
                from ..lib import _RealDecoder
                sys.setswitchinterval(1e-6)
                decs = [_RealDecoder() for _ in range(n_threads)]
                order = list(plan)
                gen.rng_for(spec["seed"], ID, "cold", child_no).shuffle(order)
                barrier = threading.Barrier(n_threads)
                lock = threading.Lock()

                def work(t):
                    try:
                        for p_, items in order:
                            barrier.wait(600)
                            for k_ in range(len(items)):
                                pl, nb, want = items[(k_ + t) % len(items)]
                                kind, got = observe(decs[t], p_, pl, nb)
                                with lock:
                                    out["n"] += 1
                                    if kind == "exc":
                                        continue
                                    if got != want and len(out["wrong"]) < 20:
                                        out["wrong"].append([p_, want, got, pl.to_bytes(nb, "little").hex(), t])
                    except threading.BrokenBarrierError:
                        out["inconclusive"] = "a thread did not reach the barrier in time (machine load)"
                    except Exception as e:  # noqa: BLE001
                        out["errors"].append(f"{type(e).__name__}: {e}")
                ts = [threading.Thread(target=work, args=(t,)) for t in range(n_threads)]
                for t_ in ts:
                    t_.start()
                for t_ in ts:
                    t_.join(900)
                # afterwards, single-threaded: whatever was set up during the race is what the process lives with
                for p_, items in order:
                    for pl, nb, want in items:
                        kind, got = observe(decs[0], p_, pl, nb)
                        out["n"] += 1
                        if kind != "exc" and got != want and len(out["wrong"]) < 20:
                            out["wrong"].append([p_, want, got, pl.to_bytes(nb, "little").hex(), "after"])
            except BaseException as e:  # noqa: BLE001
                out["errors"].append(f"{type(e).__name__}: {e}")
            try:
                os.write(wfd, json.dumps(out).encode())
            finally:
                os._exit(0)
        os.close(wfd)
        chunks = []
        while True:
            b = os.read(rfd, 65536)
            if not b:
                break
            chunks.append(b)
        os.close(rfd)
        os.waitpid(pid, 0)
        try:
            res = json.loads(b"".join(chunks).decode())
        except Exception:  # noqa: BLE001
            acc.inconclusive_because("cold-start worker returned nothing")
            continue
        if res.get("inconclusive"):
            acc.inconclusive_because("cold-start worker: " + res["inconclusive"])
            continue
        total += res["n"]
        acc.count("cold_start_processes")
        acc.count("dispatch_outcomes_compared", res["n"])
        if res["errors"]:
            acc.violation("decode-raised-in-concurrent-threads", f"first decodes of a process from {n_threads} threads: {res['errors'][0]}", {"errors": res["errors"][:5]})
        for p_, want, got, hexp, t in res["wrong"][:3]:
            acc.violation("wrong-definition-selected" if got else "no-message-for-matching-definition",
                          f"PGN {p_}: prescribed {want} but {got!r} returned when the first decodes of the process come from {n_threads} threads at once"
                          + (" (and still so afterwards, single-threaded)" if t == "after" else ""),
                          {"pgn": p_, "payload_hex": hexp, "prescribed": want, "observed": got, "thread": t, "cold_start": True})
    acc.case(("cold-threads", n_proc, total))
    acc.sample({"processes": n_proc, "threads_each": n_threads, "pgns": len(plan), "outcomes": total})


def run_shard(spec, acc):
    if spec.get("threads"):
        return cold_threads(spec, acc)
    dbx = refdb.db()
    pgn = spec["pgn"]
    ds = dbx.by_pgn[pgn]
    quick = spec["tier"] == "quick"
    rng = gen.rng_for(spec["seed"], ID, spec["name"])
    dec = NMEA2000Decoder()
    if spec.get("first", True):
        acc.count("multi_definition_pgns")
    # candidate values per (offset, bits) position, gathered over all siblings
    positions: dict = {}
    for d in ds:
        for f in d.match_fields:
            positions.setdefault((f.off, f.bits), set()).add(f.match)
    cap = 400 if quick else 20000
    only = set(spec.get("only") or [d.id for d in ds])
    for d in ds:
        if d.id not in only:
            continue
        nb_d = d.length if d.length is not None else max((max((f.off + f.bits for f in d.fields if f.off is not None and f.bits is not None), default=8) + 7) // 8, d.min_length or 1)
        nb_d = max(nb_d, 8)
        pos_list = [(f.off, f.bits) for f in d.match_fields] or list(positions)[:1]
        # also vary positions that only siblings match on (they decide whether a sibling captures the payload)
        extra = [p for p in positions if p not in pos_list]
        all_pos = pos_list + extra
        choices = []
        for (off, bits) in all_pos:
            vals = set(positions[(off, bits)])
            full = (1 << bits) - 1
            unused = next((v for v in (full, full - 1, 0, 1, 2, rng.randint(0, full)) if v not in vals), None)
            own = next((f.match for f in d.match_fields if (f.off, f.bits) == (off, bits)), None)
            cand = ([own] if own is not None else []) + sorted(vals - {own}) + ([unused] if unused is not None else [])
            # other codes that carry the same NAME in the field's lookup table (a manufacturer listed under two codes): a
            # dispatcher that compares names instead of numbers would take them for the match value
            mf = next((f for x in ds for f in x.match_fields if (f.off, f.bits) == (off, bits) and getattr(f, "lookup", None)), None)
            if mf is not None and mf.lookup in dbx.lookups:
                tab = dbx.lookups[mf.lookup]
                names = {tab.get(v) for v in vals if tab.get(v) is not None}
                alias = sorted(c for c, nm in tab.items() if nm in names and c not in vals and 0 <= c <= full)
                cand += alias[:6]
                if alias:
                    acc.count("alias_codes_with_the_same_lookup_name", len(alias[:6]))
            choices.append(cand)
        total = 1
        for c in choices:
            total *= len(c)
        n_own = len(pos_list)
        FREE = None          # position left to the filler bits

        def structured():
            own = tuple(c[0] for c in choices[:n_own]) + (FREE,) * len(extra)
            yield own
            # one position at a time through every candidate value (dropped condition, short mask, edited value)
            for i, c in enumerate(choices):
                for v in c:
                    t = list(own)
                    t[i] = v
                    yield tuple(t)
            # near misses: every single-bit flip of every own match value (mask one bit short, off-by-one values)
            for i in range(n_own):
                for b in range(all_pos[i][1]):
                    t = list(own)
                    t[i] = own[i] ^ (1 << b)
                    yield tuple(t)
            # every sibling's full match tuple laid over the own values (arm order, subset matches)
            for s_ in ds:
                t = list(own)
                for f in s_.match_fields:
                    t[all_pos.index((f.off, f.bits))] = f.match
                yield tuple(t)
            # two positions at a time
            for i in range(len(choices)):
                for j in range(i + 1, len(choices)):
                    for v in choices[i][:4]:
                        for u in choices[j][:4]:
                            t = list(own)
                            t[i], t[j] = v, u
                            yield tuple(t)
        if total <= cap:
            combos = itertools.chain(structured(), itertools.product(*choices))
            acc.set_exhaustive(f"match-value combinations of {d.id}", True)
        else:
            def sampler():
                yield from structured()
                for _ in range(cap):
                    yield tuple(rng.choice(c) if rng.random() < 0.8 else FREE for c in choices)
            combos = sampler()
        n_fill = 3 if quick else 8
        for combo in combos:
            for fill in range(n_fill):
                if fill == 0:
                    body = (1 << (nb_d * 8)) - 1                       # every other field 'not available'
                elif fill == 1:
                    body = dbx.pack(d, gen.base_raws(d, rng, dbx)) if d.fixed_layout else rng.getrandbits(nb_d * 8)
                    body |= ((1 << (nb_d * 8)) - 1) & ~((1 << max(1, d.total_bits() if d.fixed_layout else 1)) - 1) if d.fixed_layout else 0
                else:
                    body = rng.getrandbits(nb_d * 8)
                payload = body
                for (off, bits), v in zip(all_pos, combo):
                    if v is None:
                        continue
                    payload = (payload & ~(((1 << bits) - 1) << off)) | (v << off)
                payload &= (1 << (nb_d * 8)) - 1
                want = dbx.select(pgn, payload)
                kind, got = observe(dec, pgn, payload, nb_d)
                w = {"pgn": pgn, "payload_hex": payload.to_bytes(nb_d, "little").hex(), "built_for": d.id,
                     "prescribed": want.id if want else None, "observed": [kind, got]}
                if kind == "exc":
                    if want is not None and not want.supported:
                        acc.case((pgn, payload))
                        acc.count("dispatch_outcomes_compared")
                        acc.count("unsupported_target_no_message")
                    else:
                        acc.case(None)
                        acc.count("unobservable_field_decoding_raised")
                    continue
                acc.case((pgn, payload))
                acc.count("dispatch_outcomes_compared")
                acc.cover("prescribed_definitions", want.id if want else "<none>")
                if want is None:
                    if kind != "none":
                        acc.violation("message-under-unmatched-definition", f"PGN {pgn}: no definition matches but '{got}' returned", w)
                elif not want.supported:
                    if kind == "msg":
                        acc.violation("wrong-definition-selected", f"PGN {pgn}: prescribed {want.id} (unsupported type) but '{got}' returned", w)
                    else:
                        acc.count("unsupported_target_no_message")
                elif kind == "none":
                    acc.violation("no-message-for-matching-definition", f"PGN {pgn}: prescribed {want.id} but nothing returned", w)
                elif got != want.id:
                    acc.violation("wrong-definition-selected", f"PGN {pgn}: prescribed {want.id} but '{got}' returned", w)
                if acc.evaluations % 499 == 0:
                    acc.sample(w)
        # the selection is a function of the payload: it must be the same when the payload arrives frame by frame, and
        # when the decoder carries id filters that permit this definition (only this id included / every sibling excluded)
        if d.supported and d.type in ("Fast", "Single"):
            sib_ids = [x.id for x in ds if x is not d]
            variants = [("frames", {}), ("frames+include-own-id", {"include_pgns": [d.id]}), ("frames+exclude-sibling-ids", {"exclude_pgns": sib_ids} if sib_ids else {})]
            decs = [(n_, NMEA2000Decoder(**kw)) for n_, kw in variants]
            for rep in range(3 if quick else 40):
                payload = dbx.pack(d, gen.base_raws(d, rng, dbx)) if d.fixed_layout else None
                if payload is None or dbx.select(pgn, payload) is not d:
                    continue
                nb_p = d.length if d.length is not None else (d.total_bits() + 7) // 8
                if (d.type == "Single" and nb_p > 8) or nb_p > 223:
                    continue            # does not fit the frame-level formats
                kind0, got0 = observe(dec, pgn, payload, nb_p)
                if kind0 != "msg" or got0 != d.id:
                    continue            # judged above
                pb = payload.to_bytes(nb_p, "little")
                frames = [pb] if d.type == "Single" else wire.fast_frames(pb, rep % 8, 0xFF)
                ident = wire.can_id(3, pgn, 7, 255)
                for n_, fd in decs:
                    r = None
                    try:
                        for fr in frames:
                            r = fd.decode_tcp(wire.ebyte_frame(ident, fr))
                    except Exception:  # noqa: BLE001
                        r = None
                    acc.count("framewise_filtered_selections_compared")
                    if r is None or r.id != d.id:
                        acc.violation("selection-differs-frame-by-frame-or-under-id-filter", f"PGN {pgn}: {d.id} selected for the pre-assembled payload, "
                                      f"{'nothing' if r is None else r.id} returned via {n_}", {"pgn": pgn, "payload_hex": pb.hex(), "built_for": d.id, "variant": n_})
        # two talkers of this PGN at the same time, frame by frame in turn, with the same sequence counter, on a decoder that has just
        # ignored a continuation frame of each stream (it joined the bus in the middle of their previous messages): each payload is
        # still handled by its own definition
        if d.supported and d.type == "Fast" and d.fixed_layout:
            sibs_ = [x for x in ds if x.supported and x.fixed_layout and x.type == "Fast"]
            for rep in range(4 if quick else 20):
                other = rng.choice(sibs_)
                pa, pb_ = dbx.pack(d, gen.base_raws(d, rng, dbx)), dbx.pack(other, gen.base_raws(other, rng, dbx))
                if dbx.select(pgn, pa) is not d or dbx.select(pgn, pb_) is not other:
                    continue
                na = d.length if d.length is not None else (d.total_bits() + 7) // 8
                nb_o = other.length if other.length is not None else (other.total_bits() + 7) // 8
                if not (8 < na <= 223 and 8 < nb_o <= 223):
                    continue
                ka, ga = observe(dec, pgn, pa, na)
                kb, gb = observe(dec, pgn, pb_, nb_o)
                if (ka, ga) != ("msg", d.id) or (kb, gb) != ("msg", other.id):
                    continue            # judged above
                q = rep % 8
                fa, fb = wire.fast_frames(pa.to_bytes(na, "little"), q, 0xFF), wire.fast_frames(pb_.to_bytes(nb_o, "little"), q, 0xFF)
                two = NMEA2000Decoder()
                ia, ib = wire.can_id(3, pgn, 7, 255), wire.can_id(3, pgn, 8, 255)
                got_ = {}
                if rep % 2:
                    # ... on a decoder that builds the network map, the two talkers being the two halves of one multi-function box
                    # (same manufacturer and unique number, another function and instance, an address each)
                    from .. import hist
                    two = NMEA2000Decoder(build_network_map=True)
                    u_ = rng.randrange(1 << 20)
                    for s_, kw_ in ((7, dict(function=130, inst_lo=0)), (8, dict(function=150, inst_lo=1))):
                        two.decode_tcp(wire.ebyte_frame(wire.can_id(6, 60928, s_, 255), hist.claim_name(u_, 1851, **kw_).to_bytes(8, "little")))
                    acc.count("interleaved_talkers_that_are_one_multi_function_box")
                try:
                    for ident_ in (ia, ib):
                        two.decode_tcp(wire.ebyte_frame(ident_, bytes([((q + 5) % 8) << 5 | 2]) + bytes(7)))          # orphan continuation frames
                    for k_ in range(max(len(fa), len(fb))):
                        for who, ident_, fr_ in (("a", ia, fa), ("b", ib, fb)):
                            if k_ < len(fr_):
                                r_ = two.decode_tcp(wire.ebyte_frame(ident_, fr_[k_]))
                                if r_ is not None:
                                    got_[who] = (r_.id, r_.source)
                except Exception as e_:  # noqa: BLE001
                    got_["exc"] = f"{type(e_).__name__}: {e_}"
                acc.count("interleaved_talkers_after_orphan_frames_compared")
                if got_ != {"a": (d.id, 7), "b": (other.id, 8)}:
                    acc.violation("selection-differs-frame-by-frame-or-under-id-filter", f"PGN {pgn}: two talkers (sources 7 and 8) send {d.id} and {other.id} frame by frame in turn "
                                  f"after the decoder ignored a continuation frame of each: returned {got_}", {"pgn": pgn, "a": pa.to_bytes(na, "little").hex(), "b": pb_.to_bytes(nb_o, "little").hex(),
                                                                                                         "built_for": d.id, "variant": "interleaved-after-orphans"})
        # constants the generated code of this PGN compares something with and the database does not explain (none in the
        # pinned tree): each field of the definition takes that value once; the selection must be what the database says
        from .. import harvest
        for pgn_, did_, c_ in harvest.unexplained_constants(dbx):
            if pgn_ != pgn or not d.fixed_layout:
                continue
            for f in d.fields:
                if f.bits is None or f.off is None or f.match is not None:
                    continue
                for v in (c_, c_ - 1, c_ + 1):
                    if not 0 <= v <= f.mask:
                        continue
                    nb_p = d.length if d.length is not None else (d.total_bits() + 7) // 8
                    a = dbx.pack(d, gen.base_raws(d, rng, dbx))
                    a = (a & ~(f.mask << f.off)) | (v << f.off)
                    b = (a & ~(f.mask << f.off)) | (((v + 2) & f.mask) << f.off)
                    ka, ga = observe(dec, pgn, a, nb_p)
                    kb, gb = observe(dec, pgn, b, nb_p)
                    acc.count("unexplained_generated_constants_tried")
                    if "exc" in (ka, kb):
                        continue
                    if (ka, ga) != (kb, gb) and dbx.select(pgn, a) is dbx.select(pgn, b):
                        acc.violation("selection-depends-on-non-match-bits", f"PGN {pgn}: {ga} with {f.id} = {v}, {gb} with {f.id} = {(v + 2) & f.mask}: the two payloads are equal on all match positions",
                                      {"pgn": pgn, "a": a.to_bytes(nb_p, "little").hex(), "b": b.to_bytes(nb_p, "little").hex()})
        # one field outside the match positions at a time, at the codes field decoders treat specially (the reserved codes at
        # the top of its range, zero): whatever the field decoder makes of them (a value, 'not available', an error), the
        # payload is never handed to ANOTHER definition
        if d.fixed_layout and d.supported:
            base_p = dbx.pack(d, gen.base_raws(d, rng, dbx))
            if dbx.select(pgn, base_p) is d:
                nb_p = d.length if d.length is not None else (d.total_bits() + 7) // 8
                k0, g0 = observe(dec, pgn, base_p, nb_p)
                for f in d.fields:
                    if f.bits is None or f.off is None or f.match is not None or f.bits < 2 or f.bits > 64:
                        continue
                    for v in (f.mask - 1, f.mask - 2, f.mask, 0, f.mask >> 1, (f.mask >> 1) + 1):
                        if v < 0:
                            continue
                        b = (base_p & ~(f.mask << f.off)) | (v << f.off)
                        if dbx.select(pgn, b) is not d:
                            continue
                        kb, gb = observe(dec, pgn, b, nb_p)
                        acc.count("single_field_special_code_selections_compared")
                        if kb == "msg" and gb != d.id:
                            acc.violation("selection-depends-on-non-match-bits", f"PGN {pgn}: with {f.id} = {v:#x} (all match positions as {d.id} prescribes) the payload "
                                          f"comes back as {gb}", {"pgn": pgn, "a": base_p.to_bytes(nb_p, "little").hex(), "b": b.to_bytes(nb_p, "little").hex(), "field": f.id})
                        elif kb == "none" and k0 == "msg":
                            acc.violation("no-message-for-matching-definition", f"PGN {pgn}: prescribed {d.id} but nothing returned with {f.id} = {v:#x}",
                                          {"pgn": pgn, "payload_hex": b.to_bytes(nb_p, "little").hex(), "built_for": d.id, "field": f.id})
        # pairs differing only outside match fields must select the same definition
        mm = 0
        for (off, bits) in positions:
            mm |= ((1 << bits) - 1) << off
        for _ in range(50 if quick else 2000):
            a = rng.getrandbits(nb_d * 8)
            for f in d.match_fields:
                a = (a & ~(f.mask << f.off)) | (f.match << f.off)
            b = (a & mm) | (rng.getrandbits(nb_d * 8) & ~mm)
            ka, ga = observe(dec, pgn, a, nb_d)
            kb, gb = observe(dec, pgn, b, nb_d)
            if ka == "exc" or kb == "exc":
                acc.case(None)
                continue
            acc.case((pgn, a, b))
            acc.count("outside_match_pairs_compared")
            if (ka, ga) != (kb, gb):
                acc.violation("selection-depends-on-non-match-bits", f"PGN {pgn}: {ga} vs {gb} for payloads equal on all match positions",
                              {"pgn": pgn, "a": a.to_bytes(nb_d, "little").hex(), "b": b.to_bytes(nb_d, "little").hex()})


def replay(w, acc):
    dbx = refdb.db()
    b = bytes.fromhex(w["payload_hex"])
    p = int.from_bytes(b, "little")
    want = dbx.select(w["pgn"], p)
    kind, got = observe(NMEA2000Decoder(), w["pgn"], p, len(b))
    if kind == "msg" and (want is None or got != want.id):
        acc.violation("wrong-definition-selected", f"prescribed {want.id if want else None} observed {got}", w)
    if kind == "none" and want is not None and want.supported:
        acc.violation("no-message-for-matching-definition", f"prescribed {want.id} observed None", w)
