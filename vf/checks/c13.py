"""C13 - gateway clients recover from every connection fault and never stall the loop."""
from __future__ import annotations

import asyncio
import socket

from ..lib import NMEA2000Decoder
from .. import gen, wire, simgw

ID = "C13"
LEVEL = "fault_enumeration"
RULE = ("cases = sessions of a real client on the virtual-time loop with a scripted fault: the gateway refuses k "
        "connection attempts (k = 0..30, four error types) before accepting, or an established connection suffers "
        "end-of-stream / reset / garbage-then-EOF / a failing write during send(), injected at every event-loop step "
        "from before connect() to steady state (including mid-packet); a trace checker over virtual time requires: "
        "DISCONNECTED within 5 virtual seconds of a fault, retry waits strictly positive, non-decreasing, growing over "
        "the first four and capped (<= 60 s) within 12 attempts, attempts continuing as long as the gateway refuses, "
        "CONNECTED once it accepts, a frame sent on the new connection delivered, frames fed to an older connection "
        "never delivered after a newer one is CONNECTED, no receive path spinning inside one loop step, heartbeat task "
        "ticking; non-trivial = session in which a fault was actually injected and all clauses were evaluated; "
        "distinct = distinct (client, fault kind, injection step / refusal count, error type)")
ASSUMPTIONS = ["liveness restated as bounded progress in virtual time; wall clock only as an inconclusive watchdog",
               "serial client: device loss is delivered as SerialException (pyserial never reports a bare EOF); TCP clients: EOF via eof_received, reset via connection_lost(exc)",
               "loop-monopoly detector: more than 50 end-of-stream read results inside one loop step"]
REQUIRED_COUNTERS = ["sessions", "faults_injected", "recoveries_checked", "backoff_sequences_checked"]
SHARD_TIMEOUT = {"quick": 400, "thorough": 3000}

FRAME_PGN = 127250           # Vessel Heading, single frame


def heading_payload(n):
    return bytes([n & 0xFF, 0x10, 0x20, 0xFF, 0x7F, 0xFF, 0x7F, 0xFD])


def packet(kind, src, n=0):
    ident = wire.can_id(2, FRAME_PGN, src, 255)
    data = heading_payload(n)
    if kind == "ebyte":
        return wire.ebyte_frame(ident, data)
    if kind == "waveshare":
        return wire.usb_frame(ident, data)
    if kind == "yd":
        return wire.yd_line(ident, data).encode()
    return (wire.actisense_line(2, FRAME_PGN, src, 255, data) + "\r\n").encode()


def refusal_errors(kind):
    if kind == "waveshare":
        import serial
        return [serial.SerialException("could not open port /dev/sim-serial"), OSError(2, "No such file or directory"), PermissionError(13, "denied"), TimeoutError("open timed out")]
    return [ConnectionRefusedError(111, "refused"), OSError(113, "No route to host"), TimeoutError("timed out"),
            socket.gaierror(-2, "Name or service not known")]


def shards(tier, seed):
    out = []
    for kind in simgw.KINDS:
        out.append({"name": f"{kind}-refusals", "kind": kind, "what": "refusals", "tier": tier, "seed": seed})
        out.append({"name": f"{kind}-fault-storm", "kind": kind, "what": "storm", "tier": tier, "seed": seed})
        for scb_ in ("ok", "send_on_connected", "slow_connected", "raise"):
            if not (kind == "actisense" and scb_ == "send_on_connected"):
                out.append({"name": f"{kind}-reset_at_accept-{scb_}", "kind": kind, "what": "fault", "fault": "reset_at_accept", "scb": scb_, "tier": tier, "seed": seed})
        for fault in ("eof", "reset", "garbage_eof", "write_error", "eof_midpacket", "busy_reply", "garbage_overrun", "eof_while_send_blocked", "write_error_read_silent"):
            if kind == "waveshare" and fault in ("eof", "garbage_eof", "eof_midpacket", "eof_while_send_blocked"):
                continue
            if kind == "actisense" and fault in ("eof_while_send_blocked", "write_error_read_silent"):
                continue
            if fault == "busy_reply" and kind != "ebyte":
                continue            # 'Sorry,Limited' is what an ECAN/EByte gateway answers when it has no free TCP slot
            if fault == "garbage_overrun" and kind not in ("yd", "actisense"):
                continue            # a line longer than the stream reader's limit exists only for the text clients
            if kind == "actisense" and fault == "write_error":
                continue            # this client has no wire format for sending (C19 covers send on it)
            out.append({"name": f"{kind}-{fault}", "kind": kind, "what": "fault", "fault": fault, "scb": "ok", "tier": tier, "seed": seed})
            if fault in ("eof", "reset", "write_error"):
                # network mapping on: the seeding clients send ISO requests 2, 4 and 6 s after every (re)connect
                out.append({"name": f"{kind}-{fault}-mapping", "kind": kind, "what": "fault", "fault": fault, "scb": "ok", "mapping": True, "tier": tier, "seed": seed})
            if fault in ("eof", "reset") and kind != "waveshare":
                out.append({"name": f"{kind}-{fault}-conformance-real-tcp", "kind": kind, "what": "conformance", "fault": fault, "tier": tier, "seed": seed})
            # a status callback that suspends widens every window in which connect() still holds its lock
            for scb in ("slow", "slow_connected", "slow_disconnected", "send_on_connected"):
                if scb == "send_on_connected" and (kind == "actisense" or fault not in ("reset", "eof", "write_error")):
                    continue
                if fault == "write_error_read_silent":
                    # (this fault is not one a real transport produces - see the comment where it is injected; it is only
                    # combined with status callbacks that return at once: while a connect() sits in a suspended callback the old
                    # link's reader is still running and the pinned client depends on it noticing the loss)
                    continue
                if tier != "quick" or (fault in ("write_error", "reset", "eof") and scb != "slow_disconnected"):
                    out.append({"name": f"{kind}-{fault}-{scb}", "kind": kind, "what": "fault", "fault": fault, "scb": scb, "tier": tier, "seed": seed})
    return out


# ---------------------------------------------------------------------------
# scenarios
# ---------------------------------------------------------------------------

def make_send_message(kind):
    dec = NMEA2000Decoder()
    m = dec.decode_tcp(wire.ebyte_frame(wire.can_id(2, FRAME_PGN, 77, 255), heading_payload(1)))
    return m


def claim_packet(kind, src):
    """Address claim from `src` in the client's wire format (needed when network mapping withholds unclaimed sources)."""
    from ..hist import claim_name
    ident = wire.can_id(6, 60928, src, 255)
    data = claim_name(1000 + src, 1851).to_bytes(8, "little")
    if kind == "ebyte":
        return wire.ebyte_frame(ident, data)
    if kind == "waveshare":
        return wire.usb_frame(ident, data)
    if kind == "yd":
        return wire.yd_line(ident, data).encode()
    return (wire.actisense_line(6, 60928, src, 255, data) + "\r\n").encode()


def fault_session(kind, fault, step, settle=40.0, scb="ok", second=None, mapping=False, bystander=False, cb_style="method", recv_cb="ok", burst=0):
    """second = (fault kind, virtual seconds after the start) injects another fault after the first recovery."""
    info = {"injected": False, "inject_step": None, "inject_time": None, "conn_at_fault": None, "second_injected": False}

    async def scenario(sim):
        loop = sim.loop

        def inject(fault=fault, first=True):
            live = [c for c in sim.conns if not c.lost and not c.closing and not c.eof_sent]
            if not live:
                return
            c = live[-1]
            if first:
                info.update(injected=True, inject_step=loop.steps, inject_time=loop.time() - 1000.0, conn_at_fault=c.id)
            else:
                info.update(second_injected=True, second_time=loop.time() - 1000.0, second_step=loop.steps, second_conn=c.id)
            if burst and first and fault not in ("busy_reply",):
                # a burst of frames right before the fault: with a receive callback that takes its time they are still queued when
                # the link goes and the next one comes up
                c.feed(b"".join(packet(kind, 150 + i_) for i_ in range(burst)))
            sim.ev("fault", fault=fault, conn=c.id)
            if fault == "eof":
                c.feed_eof()
            elif fault == "reset":
                c.reset(simgw.link_loss(kind))
            elif fault == "garbage_eof":
                c.feed(b"\x00\xffgarbage\x01\x02")
                c.feed_eof()
            elif fault == "eof_midpacket":
                c.feed(packet(kind, 60)[:7])
                c.feed_eof()
            elif fault == "busy_reply":
                # the gateway answers instead of serving (13 bytes, read as one frame): the client waits 30 s and
                # treats the link as lost
                c.feed(b"Sorry,Limited")
            elif fault == "garbage_overrun":
                # unterminated garbage beyond the reader's 64 KiB line limit: readline() fails with ValueError
                # (LimitOverrunError), the link itself stays up
                c.feed(bytes((0x41 + (i * 7) % 50) for i in range(70_000)))
            elif fault == "eof_while_send_blocked":
                # the gateway stops reading (a send() of the application stays parked in drain(), for good) and a moment later
                # ends its stream: an orderly end of stream does not fail the parked drain(). The client reconnects all the same
                c.pause_plan = [10 ** 8]
                sim.spawn("send", make_send_message(kind))
                loop.call_later(0.05, c.feed_eof)
            elif fault == "write_error_read_silent":
                # only the write direction breaks: the flush of a send() fails, the read side of the link stays silent (and open).
                # No real transport does that (a failing write tears the whole link down, the reader sees it too): the fault is
                # kept because it is the only way to make two receive loops visible (7.18), and it is injected only while the
                # client is idle - not while a connect() is still in progress or a status callback of the application is running
                # (a connect() parked in a slow CONNECTED callback): there the pinned tree relies on the reader noticing the loss, which this fault withholds
                calls_ = sum(1 for e_ in sim.trace if e_["k"] == "call" and e_.get("name") == "connect")
                rets_ = sum(1 for e_ in sim.trace if e_["k"] == "ret" and e_.get("name") == "connect")
                if calls_ > rets_ or sim.client.state.name != "CONNECTED" or sim.status_cb_active:
                    if first:
                        info.update(injected=False)
                    else:
                        info.update(second_injected=False)
                    return
                c.drain_fails = 0
                sim.spawn("send", make_send_message(kind))
            elif fault == "write_error":
                c.fail_write_after = 0
                c.fail_exc = simgw.link_loss(kind, write=True)
                sim.spawn("send", make_send_message(kind))

        def on_accept(conn):
            if fault == "reset_at_accept" and conn.id == 0:
                # the gateway accepts and drops the link in the same breath (a proxy whose backend is down)
                info.update(injected=True, inject_step=loop.steps, inject_time=loop.time() - 1000.0, conn_at_fault=0)
                sim.ev("fault", fault=fault, conn=0)
                conn.reset(simgw.link_loss(kind))
                return
            # every accepted connection delivers one frame tagged with its connection number
            def later():
                if not conn.lost and not conn.closing:
                    conn.feed((claim_packet(kind, 100 + conn.id) if mapping else b"") + packet(kind, 100 + conn.id))
            loop.call_later(0.2, later)
        sim.on_accept.append(on_accept)
        loop.at_step(step, inject)
        if second is not None:
            loop.call_later(second[1], lambda: inject(second[0], False))
        sim.spawn("connect")
        await asyncio.sleep(0.05)
        if sim.conns and fault != "busy_reply":              # (the busy reply is a 13-byte frame: it arrives frame-aligned)
            sim.conns[0].feed(packet(kind, 50)[:5])          # a packet in flight when early faults hit
            await asyncio.sleep(0.01)
            if not sim.conns[0].lost and not sim.conns[0].eof_sent:
                sim.conns[0].feed(packet(kind, 50)[5:])
        await asyncio.sleep(settle)
        # stale data on every older connection that is still technically open
        newest = len(sim.conns) - 1
        for c in sim.conns[:-1]:
            if not c.lost and not c.closing and not c.eof_sent:
                c.feed(packet(kind, 200 + c.id))
        await asyncio.sleep(1.0)
        info["elapsed"] = loop.time() - 1000.0
        info["ticks"] = sim.heartbeat_ticks
        await sim.close_guarded()
    sim, stats = simgw.run_session(kind, scenario, status_cb=scb, client_kwargs={"build_network_map": True} if mapping else None, bystander=bystander, cb_style=cb_style,
                                   recv_cb=recv_cb)
    return sim, stats, info


def check_recovery(sim, stats, info, acc, kind, fault, step, scb="ok"):
    w = {"client": kind, "fault": fault, "step": step, "status_cb": scb, "status": sim.status if sim else None,
         "trace_tail": [{k: (v.hex() if isinstance(v, bytes) else v) for k, v in e.items()} for e in (sim.trace if sim else []) if e["k"] not in ("state_sample", "write")][-40:]}
    acc.count("sessions")
    if stats["error"]:
        acc.inconclusive_because(f"simulator: {stats['error']} ({kind} {fault} step {step})")
        return
    if sim.close_hung:
        acc.case((kind, fault, step, scb))
        acc.count("faults_injected")
        acc.violation("close-never-returns-after-fault", f"{kind}: after '{fault}' (status callback {scb}) the final close() had not returned 120 virtual s later; statuses {sim.status}", w)
        return
    spins = [e for e in sim.trace if e["k"] == "loop_monopoly"]
    if spins:
        acc.case((kind, fault, step))
        acc.count("faults_injected")
        acc.violation(f"receive-path-spins-on-end-of-stream:{kind}", f"{kind}: after '{fault}' the receive path performed {spins[0]['reads_in_one_step']} reads returning end-of-stream inside one loop step (event loop monopolised, no DISCONNECTED)", w)
        return
    if not sim.conns and len(sim.attempts) == 0:
        # the gateway accepts, the application called connect() - and the client never even tried
        acc.case((kind, fault, step, scb))
        acc.violation("no-reconnect-after-fault", f"{kind}: connect() was called and the gateway accepts, but the client made no connection attempt in the whole session "
                      f"(statuses {sim.status}; other clients of the process were busy connecting)", w)
        return
    if not info["injected"]:
        acc.case(None)
        acc.count("fault_not_injectable_at_step")
        return
    acc.case((kind, fault, step, scb))
    acc.count("faults_injected")
    t_f = info["inject_time"]
    after = [e for e in sim.trace if e["s"] >= info["inject_step"]]
    st_after = [(e["t"], e["state"]) for e in after if e["k"] == "status"]
    disc = next((t for t, s in st_after if s == "DISCONNECTED"), None)
    if fault == "reset_at_accept" and disc is None:
        # the link died before the client ever reported CONNECTED on it (the serial client talks to the device inside its
        # connect step): that is a failing connect, retried without a DISCONNECTED in between
        second = next((a for a in sim.attempts if a.get("conn", 0) >= 1), None)
        if second is not None and not any(s_ == "CONNECTED" and t_ < second["end"] for t_, s_ in st_after):
            disc = t_f
            acc.count("link_lost_inside_the_connect_step")
    deadline = 31.0 if fault == "busy_reply" else 5.0       # the client itself sleeps 30 s on the busy reply
    if disc is None or disc - t_f > deadline:
        acc.violation("no-disconnected-after-fault", f"{kind}: no DISCONNECTED within {deadline:.0f} virtual s of '{fault}' at step {step} (statuses after fault: {st_after})", w)
        return
    conn = next((t for t, s in st_after if s == "CONNECTED" and t >= disc), None)
    if conn is None:
        acc.violation("no-reconnect-after-fault", f"{kind}: no CONNECTED after '{fault}' although the gateway accepts (statuses {st_after})", w)
        return
    newest = len(sim.conns) - 1
    recv_new = [e for e in sim.trace if e["k"] == "recv" and e["src"] == 100 + newest and e["pgn"] == FRAME_PGN]
    if newest == info["conn_at_fault"]:
        acc.violation("no-new-connection-after-fault", f"{kind}: CONNECTED reported but no new connection was opened", w)
        return
    if not recv_new:
        acc.violation("frame-on-new-connection-not-delivered", f"{kind}: frame sent on connection {newest} after recovery was not delivered", w)
        return
    stale = [e for e in sim.trace if e["k"] == "recv" and e["src"] >= 200]
    if stale:
        acc.violation("older-connection-still-delivers", f"{kind}: data fed to an older connection was delivered after a newer one was CONNECTED", w)
    dup = [e for e in sim.trace if e["k"] == "recv" and e["src"] == 100 + newest and e["pgn"] == FRAME_PGN]
    if len(dup) > 1:
        acc.violation("frame-delivered-twice", f"{kind}: frame on the new connection delivered {len(dup)} times", w)
    if info.get("second_injected"):
        acc.count("second_faults_injected")
        t2 = info["second_time"]
        st2 = [(e["t"], e["state"]) for e in sim.trace if e["k"] == "status" and e["s"] >= info["second_step"]]
        d2 = next((t for t, s_ in st2 if s_ == "DISCONNECTED"), None)
        c2 = next((t for t, s_ in st2 if s_ == "CONNECTED" and d2 is not None and t >= d2), None)
        if d2 is None or d2 - t2 > 5.0 + 1e-6 or c2 is None or newest <= info["second_conn"]:
            acc.violation("no-recovery-from-second-fault", f"{kind}: a second fault ({fault} then another) after the first recovery was not recovered from (statuses {st2})", w)
        else:
            acc.count("second_recoveries_checked")
    exp_ticks = int(info["elapsed"] / 0.1)
    ticks = info.get("ticks", sim.heartbeat_ticks)
    if abs(ticks - exp_ticks) > 3:
        acc.violation("heartbeat-starved", f"{kind}: heartbeat ticked {ticks} times in {info['elapsed']:.1f} virtual s", w)
    acc.count("recoveries_checked")
    acc.cover("faults", f"{kind}/{fault}")
    if step % 9 == 0:
        acc.sample({"client": kind, "fault": fault, "injected_at_step": step, "status_callback": scb, "status_trace": sim.status,
                    "fault_at_virtual_s": round(t_f, 3), "disconnected_at": round(disc, 3), "reconnected_at": round(conn, 3),
                    "attempt_starts_s": [round(a["start"], 3) for a in sim.attempts][:8], "delivered_sources": [e["src"] for e in sim.trace if e["k"] == "recv"],
                    "heartbeat_ticks": sim.heartbeat_ticks, "loop_steps": sim.loop.steps}, cap=6)


def refusal_session(kind, k, exc, delay):
    async def scenario(sim):
        sim.connect_script = [("refuse", exc, delay)] * k

        def on_accept(conn):
            sim.loop.call_later(0.2, lambda: (not conn.lost and not conn.closing) and conn.feed(packet(kind, 100 + conn.id)))
        sim.on_accept.append(on_accept)
        sim.spawn("connect")
        # long enough for k capped waits
        await asyncio.sleep(20 + 61.0 * k)
        await sim.close_guarded()
    return simgw.run_session(kind, scenario, max_steps=400_000 + 2000 * k)


def check_backoff(sim, stats, acc, kind, k, exc):
    w = {"client": kind, "refusals": k, "error": type(exc).__name__,
         "attempts": [(round(a["start"], 3), a["outcome"]) for a in (sim.attempts if sim else [])][:40], "status": sim.status if sim else None}
    acc.count("sessions")
    acc.case((kind, "refusals", k, type(exc).__name__))
    if stats["error"]:
        acc.inconclusive_because(f"simulator: {stats['error']} ({kind} refusals {k})")
        return
    att = sim.attempts
    refused = [a for a in att if a["outcome"].startswith("refused")]
    if len(refused) < k:
        acc.violation("retries-stop-while-gateway-refuses", f"{kind}: only {len(refused)} of {k} refusals were met by an attempt ({type(exc).__name__})", w)
        return
    if len(att) < k + 1 or att[k]["outcome"] != "accepted":
        acc.violation("no-connect-after-gateway-accepts", f"{kind}: gateway accepts after {k} refusals but no successful attempt followed", w)
        return
    waits = [att[i + 1]["start"] - att[i]["end"] for i in range(k)]
    acc.count("backoff_sequences_checked")
    acc.cover("refusal_counts", k)
    acc.cover("refusal_errors", type(exc).__name__)
    if any(x <= 0 for x in waits):
        acc.violation("zero-delay-retry", f"{kind}: retry waits {['%.3f' % x for x in waits[:8]]} contain a non-positive delay", w)
    if any(b < a - 1e-9 for a, b in zip(waits, waits[1:])):
        acc.violation("retry-delay-decreases", f"{kind}: retry waits {['%.3f' % x for x in waits[:12]]} decrease", w)
    if len(waits) >= 4 and not (waits[3] > waits[0] + 1e-9):
        acc.violation("retry-delay-does-not-grow", f"{kind}: first four retry waits {['%.3f' % x for x in waits[:4]]} do not grow", w)
    if waits and max(waits) > 60.0:
        acc.violation("retry-delay-uncapped", f"{kind}: a retry wait of {max(waits):.1f} s", w)
    if len(waits) >= 13 and not abs(waits[-1] - waits[11]) < 1e-6:
        acc.violation("retry-delay-no-plateau", f"{kind}: retry waits still changing after 12 attempts ({waits[11]:.2f} -> {waits[-1]:.2f})", w)
    if "CONNECTED" not in sim.status:
        acc.violation("no-connected-status-after-accept", f"{kind}: statuses {sim.status}", w)
    elif k > 0 and sim.status[0] != "CONNECTED" and sim.status.count("CONNECTED") < 1:
        pass
    if not any(e["k"] == "recv" and e["src"] >= 100 for e in sim.trace):
        acc.violation("frame-on-new-connection-not-delivered", f"{kind}: frame sent after {k} refusals was not delivered", w)
    acc.count("recoveries_checked")
    if k in (5, 13):
        acc.sample({"client": kind, "refusals": k, "error": type(exc).__name__, "retry_waits_s": [round(x, 3) for x in waits], "status_trace": sim.status}, cap=6)


def conformance(spec, acc):
    """Simulator fidelity: the same fault on a real loopback TCP socket (real EOF via close, real RST via
    SO_LINGER 0, real time). Only the order of status notifications and deliveries is compared with the
    simulated session; a disagreement is a note / counter, never a verdict."""
    import struct
    import time as _time
    from nmea2000.ioclient import EByteNmea2000Gateway, ActisenseNmea2000Gateway, YachtDevicesNmea2000Gateway
    kind, fault = spec["kind"], spec["fault"]

    async def one():
        accepted = []

        async def handle(reader, writer):
            n = len(accepted)
            accepted.append(writer)
            writer.write(packet(kind, 100 + n))
            await writer.drain()
            if n == 0:
                await asyncio.sleep(0.3)
                sock = writer.get_extra_info("socket")
                if fault == "reset":
                    sock.setsockopt(socket.SOL_SOCKET, socket.SO_LINGER, struct.pack("ii", 1, 0))
                writer.close()
            else:
                await asyncio.sleep(3)
        server = await asyncio.start_server(handle, "127.0.0.1", 0)
        port = server.sockets[0].getsockname()[1]
        cls = {"ebyte": EByteNmea2000Gateway, "actisense": ActisenseNmea2000Gateway, "yd": YachtDevicesNmea2000Gateway}[kind]
        client = cls("127.0.0.1", port)
        status, got = [], []

        async def on_status(st):
            status.append(st.name)

        async def on_msg(m):
            got.append(m.source)
        client.set_status_callback(on_status)
        client.set_receive_callback(on_msg)
        ticks = [0]

        async def hb():
            while True:
                await asyncio.sleep(0.05)
                ticks[0] += 1
        hbt = asyncio.ensure_future(hb())
        await asyncio.wait_for(client.connect(), 5)
        t0 = _time.time()
        while _time.time() - t0 < 6 and not (len(got) >= 2 and status[-1:] == ["CONNECTED"] and len(status) >= 3):
            await asyncio.sleep(0.05)
        elapsed = _time.time() - t0
        hbt.cancel()
        await asyncio.wait_for(client.close(), 5)
        server.close()
        return status, got, ticks[0], elapsed
    try:
        from ..vloop import real_loop_guard
        with real_loop_guard(60):
            status, got, ticks, elapsed = asyncio.run(asyncio.wait_for(one(), 30))
    except Exception as e:  # noqa: BLE001
        acc.note(f"conformance {kind}/{fault} over real TCP could not be completed: {type(e).__name__}: {e}")
        return
    except BaseException as e:  # noqa: BLE001
        if type(e).__name__ != "StepStalled":
            raise
        acc.inconclusive_because("simulator: loop-step-stalled (conformance run on a real event loop and socket: a callback did not return)")
        return
    acc.count("conformance_runs")
    acc.case(None)
    # the simulated counterpart (fault after the first delivery)
    sim, stats, info = fault_session(kind, fault, 10 ** 9, settle=1.0)
    want_status = ["CONNECTED", "DISCONNECTED", "CONNECTED", "CLOSED"]
    if status != want_status or got[:2] != [100, 101] or ticks < elapsed / 0.05 * 0.5:
        acc.count("conformance_mismatches")
        acc.note(f"conformance {kind}/{fault} over real TCP: status {status}, deliveries {got}, heartbeat {ticks} ticks in {elapsed:.1f}s")
    else:
        acc.count("conformance_real_tcp_recoveries_equal")


def storm(spec, acc):
    """Many faults in a row on one client instance (every one after the previous recovery, mixed with refusals):
    recovery must not depend on how many faults the client has already been through."""
    kind = spec["kind"]
    quick = spec["tier"] == "quick"
    rng = gen.rng_for(spec["seed"], ID, spec["name"])
    kinds_of_fault = ["reset", "eof", "garbage_eof", "write_error"]
    if kind == "waveshare":
        kinds_of_fault = ["reset", "write_error"]
    if kind == "actisense":
        kinds_of_fault = ["reset", "eof", "garbage_eof"]
    for rep in range(3 if quick else 20):
        n_faults = rng.randint(12, 25)
        plan = [rng.choice(kinds_of_fault) for _ in range(n_faults)]
        refusals = [rng.choice([0, 0, 1, 3]) for _ in range(n_faults)]
        errs = refusal_errors(kind)

        async def scenario(sim):
            loop = sim.loop

            def on_accept(conn):
                loop.call_later(0.2, lambda: (not conn.lost and not conn.closing) and conn.feed(packet(kind, conn.id % 200)))
            sim.on_accept.append(on_accept)
            sim.census = []
            sim.spawn("connect")
            await asyncio.sleep(1.0)
            for f_, r_ in zip(plan, refusals):
                live = [c for c in sim.conns if not c.lost and not c.closing and not c.eof_sent]
                if not live:
                    break
                c = live[-1]
                sim.connect_script = [("refuse", errs[rng.randrange(len(errs))], 0.01)] * r_
                sim.ev("fault", fault=f_, conn=c.id)
                if f_ == "eof":
                    c.feed_eof()
                elif f_ == "reset":
                    c.reset(simgw.link_loss(kind))
                elif f_ == "garbage_eof":
                    c.feed(b"\x00\xffgarbage")
                    c.feed_eof()
                else:
                    c.fail_write_after = 0
                    sim.spawn("send", make_send_message(kind))
                await asyncio.sleep(25.0)
                # census at a quiescent point: tasks alive and connections still open (each recovery must leave the same
                # picture behind - one receive path, one link)
                sim.census.append((len([t for t in asyncio.all_tasks(loop) if not t.done()]),
                                   len([c_ for c_ in sim.conns if not c_.lost and not c_.closing])))
            sim.n_done = len([e for e in sim.trace if e["k"] == "fault"])
            await sim.close_guarded()
        sim, stats = simgw.run_session(kind, scenario, max_steps=600_000)
        acc.count("sessions")
        acc.case((kind, "storm", tuple(plan), tuple(refusals)))
        w = {"client": kind, "plan": plan, "refusals": refusals, "status": sim.status[-12:] if sim else None}
        if stats["error"]:
            acc.inconclusive_because(f"simulator: {stats['error']} (storm)")
            continue
        faults = [e for e in sim.trace if e["k"] == "fault"]
        acc.count("faults_injected", len(faults))
        if len(faults) < len(plan):
            acc.violation("no-recovery-in-fault-storm", f"{kind}: after {len(faults)} faults no live connection was left although the gateway accepts (planned {len(plan)})", w)
            continue
        delivered = {e["src"] for e in sim.trace if e["k"] == "recv"}
        conns_with_frame = {c.id % 200 for c in sim.conns}
        expected_status = ["CONNECTED"] + ["DISCONNECTED", "CONNECTED"] * len(plan) + ["CLOSED"]
        if sim.status != expected_status:
            acc.violation("status-trace-wrong-in-fault-storm", f"{kind}: {len(plan)} faults, status trace has {len(sim.status)} entries: ...{sim.status[-8:]}", w)
        elif len(delivered) < len(conns_with_frame) - 1:
            acc.violation("frames-not-delivered-in-fault-storm", f"{kind}: frames of {len(conns_with_frame)} connections expected, {len(delivered)} delivered", w)
        else:
            acc.count("recoveries_checked", len(plan))
            acc.count("storm_sessions_ok")
        if any(e["k"] == "loop_monopoly" for e in sim.trace):
            acc.violation("receive-path-spins-on-end-of-stream:" + kind, f"{kind}: loop monopolised during a fault storm", w)
        census = getattr(sim, "census", [])
        if len(census) >= 6:
            acc.count("storm_censuses_checked")
            tasks = [t for t, _ in census]
            links = [l for _, l in census]
            if max(tasks[3:]) > max(tasks[:3]) + 1 or max(links[3:]) > max(links[:3]):
                acc.violation("tasks-or-links-accumulate-over-reconnects", f"{kind}: live tasks after each recovery {tasks}, open links {links}: they grow with the number of faults", w)


def run_shard(spec, acc):
    kind = spec["kind"]
    quick = spec["tier"] == "quick"
    if spec["what"] == "conformance":
        return conformance(spec, acc)
    if spec["what"] == "storm":
        return storm(spec, acc)
    rng = gen.rng_for(spec["seed"], ID, spec["name"])
    if spec["what"] == "refusals":
        errs = refusal_errors(kind)
        # "for as long as needed": up to an outage of three virtual hours (1100 refused attempts; 2600 in the thorough tier)
        ks = [0, 1, 2, 3, 4, 5, 8, 13, 30, 1100] if quick else list(range(0, 31)) + [300, 1100, 2600]
        # and as many refusals as any count the code under test mentions literally (plus one)
        ks = sorted(set(ks) | {k_ + 1 for k_ in gen.harvested_in(30, 3000)[:3]})
        for k in ks:
            for j, exc in enumerate(errs):
                if quick and k > 5 and j != k % len(errs):
                    continue
                delay = rng.choice([0.001, 0.05, 1.5])
                sim, stats = refusal_session(kind, k, exc, delay)
                check_backoff(sim, stats, acc, kind, k, exc)
        acc.sample({"client": kind, "refusal_counts": ks, "errors": [type(e).__name__ for e in errs]})
        return
    fault = spec["fault"]
    scb = spec.get("scb", "ok")
    mapping = bool(spec.get("mapping"))
    # baseline length: steps until the first connection is idle in steady state
    sim0, stats0, _ = fault_session(kind, "none", 10 ** 9, settle=1.0 if not mapping else 8.0, scb=scb, mapping=mapping)
    if stats0["error"]:
        acc.inconclusive_because(f"simulator baseline: {stats0['error']}")
        return
    steady = next((e["s"] for e in sim0.trace if e["k"] == "recv" and e["src"] == 100 and e["pgn"] == FRAME_PGN), 40) + 6
    if mapping:
        # include the seeding period (sends at +2, +4, +6 virtual s): steps up to the last seeding write
        steady = max([e["s"] for e in sim0.trace if e["k"] == "write"] + [steady]) + 4
    steps = list(range(0, steady + 1))
    if fault == "reset_at_accept":
        steps = [10 ** 9 - 1, 10 ** 9 - 2, 10 ** 9 - 3]         # (the fault is tied to the accept, not to a loop step)
    if quick and len(steps) > 40:
        steps = steps[:30] + steps[30::3]
    seconds = ["reset", "eof", "write_error"] if kind != "waveshare" else ["reset", "write_error"]
    if kind == "actisense":
        seconds = ["reset", "eof"]
    if fault == "write_error_read_silent":
        seconds = ["write_error_read_silent", "write_error_read_silent", "reset"]
    if fault == "eof_while_send_blocked":
        # the parked send() keeps the send lock on the old, never closed transport: a second fault that is injected THROUGH
        # a send cannot happen (what becomes of later sends is C19's matter); faults of the read side can
        seconds = ["reset", "eof"]
    for k_, step in enumerate(steps):
        by = k_ % 3 == 2            # every third session: an untouched second client in the same process must not notice anything
        backlog = k_ % 5 == 3 and not mapping
        sim, stats, info = fault_session(kind, fault, step, scb=scb, mapping=mapping, settle=50.0 if fault == "busy_reply" else 40.0, bystander=by,
                                        cb_style=("method", "object", "lambda", "partial", "orphan-method")[k_ % 5],
                                        recv_cb="slow" if backlog else "ok", burst=12 if backlog else 0)
        if backlog:
            acc.count("fault_sessions_with_a_backlog_in_a_slow_receive_callback")
        check_recovery(sim, stats, info, acc, kind, fault, step, scb)
        if by and sim is not None and not stats["error"]:
            simgw.judge_bystander(sim, acc, {"client": kind, "fault": fault, "step": step, "status_cb": scb})
        if mapping or fault in ("busy_reply", "reset_at_accept"):
            continue
        if not quick or k_ % 4 == 0 or (fault == "write_error_read_silent" and k_ % 2 == 0):
            # the same session with another fault a few seconds after the first recovery
            sec = (seconds[k_ % len(seconds)], 8.0 + (k_ % 5) * 0.37)
            sim, stats, info = fault_session(kind, fault, step, scb=scb, second=sec)
            check_recovery(sim, stats, info, acc, kind, fault, step, scb)
    acc.set_exhaustive(f"{kind}/{fault}/status-callback-{scb}: every loop step 0..{steady}", not quick or len(steps) == steady + 1)
    acc.sample({"client": kind, "fault": fault, "status_cb": scb, "injection_steps": [steps[0], steps[-1]], "sessions": len(steps)})


def replay(w, acc):
    if "fault" in w:
        sim, stats, info = fault_session(w["client"], w["fault"], w["step"], scb=w.get("status_cb", "ok"), settle=50.0 if w["fault"] == "busy_reply" else 40.0)
        check_recovery(sim, stats, info, acc, w["client"], w["fault"], w["step"], w.get("status_cb", "ok"))
