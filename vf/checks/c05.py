"""C05 - CAN identifier packing and parsing are mutually inverse (PDU1/PDU2 aware)."""
from __future__ import annotations

from ..lib import NMEA2000Decoder, NMEA2000Encoder, NMEA2000Message, encoder_mod
from .. import refdb, gen, wire

ID = "C05"
LEVEL = "exploration"
RULE = ("cases = CAN identifiers pushed through the parse/build pair and compared with an inline J1939 reference "
        "(thorough: all 2^29; quick: every priority x DP x PF x 64 boundary/random (PS,SA) pairs), plus public-path "
        "cases (encode_* -> identifier bytes -> decode_* -> message header) for known and stub-encoded PGNs; "
        "non-trivial = an identifier or header tuple actually compared; distinct = distinct identifier / "
        "(format, prio, pgn, src, dst) tuple")
ASSUMPTIONS = ["J1939 layout: prio 26-28, DP 24-25, PF 16-23, PS 8-15, SA 0-7; PDU1 iff PF < 240",
               "the internal static pair NMEA2000Decoder._extract_header / NMEA2000Encoder._build_header is used when present (sweep); otherwise only the public path runs"]
REQUIRED_COUNTERS = ["public_header_roundtrips"]
SHARD_TIMEOUT = {"quick": 200, "thorough": 1500}

BOUNDARY = [0, 1, 2, 127, 128, 239, 240, 253, 254, 255]


def shards(tier, seed):
    out = []
    if tier == "quick":
        for i in range(8):
            out.append({"name": f"sweep-quick-{i}", "kind": "sweep_quick", "prio": i, "seed": seed})
    else:
        n = 128
        for i in range(n):
            out.append({"name": f"sweep-{i}", "kind": "sweep_full", "i": i, "n": n, "seed": seed})
    for i in range(4):
        out.append({"name": f"public-{i}", "kind": "public", "i": i, "n": 4, "seed": seed, "tier": tier})
    out.append({"name": "stub-pgns", "kind": "stub", "seed": seed, "tier": tier})
    out.append({"name": "threads", "kind": "threads", "seed": seed, "tier": tier})
    return out


def have_pair():
    return hasattr(NMEA2000Decoder, "_extract_header") and hasattr(NMEA2000Encoder, "_build_header")


def check_ids(ids, acc):
    ext, bld = NMEA2000Decoder._extract_header, NMEA2000Encoder._build_header
    n = 0
    for ident in ids:
        n += 1
        pgn, src, dst, prio = ext(ident)
        # inline reference
        pf = (ident >> 16) & 0xFF
        if pf < 240:
            e_pgn, e_dst = (ident >> 8) & 0x3FF00, (ident >> 8) & 0xFF
        else:
            e_pgn, e_dst = (ident >> 8) & 0x3FFFF, 255
        if pgn != e_pgn or src != (ident & 0xFF) or dst != e_dst or prio != (ident >> 26):
            acc.violation("identifier-parse-mismatch", f"id 0x{ident:08X} parsed to {(prio, pgn, src, dst)} expected {(ident >> 26, e_pgn, ident & 0xFF, e_dst)}",
                          {"kind": "id", "ident": ident})
        elif bld(pgn, src, dst, prio) != ident:
            acc.violation("identifier-rebuild-mismatch", f"id 0x{ident:08X} rebuilt as 0x{bld(pgn, src, dst, prio):08X}", {"kind": "id", "ident": ident})
    acc.count("identifiers_swept", n)
    return n


def run_shard(spec, acc):
    kind = spec["kind"]
    rng = gen.rng_for(spec["seed"], ID, spec["name"])
    if kind == "threads":
        # an encoder and a decoder per thread: the identifier written is the one of the message this thread is encoding
        from .. import threadwork
        n, wrong, errors = threadwork.encoder_round_trips(spec, acc, ID)
        acc.count("public_header_roundtrips", n)
        acc.count("encoded_identifiers_checked", n)
        if errors:
            acc.violation("encode-raised-in-concurrent-threads", f"encoders of their own in several threads: {errors[0]}", {"errors": errors[:5]})
        if wrong:
            t, did, fmt, what, detail = wrong[0]
            acc.violation("encoded-identifier-mismatch" if what == "packets" else "decoded-header-mismatch",
                          f"{fmt}: thread {t} encoding {did} with an encoder of its own while other threads encode with theirs: {what} differ ({detail})",
                          {"kind": "threads", "fmt": fmt, "definition": did, "thread": t, "detail": repr(detail)})
        return
    if kind == "sweep_quick":
        if not have_pair():
            acc.note("internal parse/build pair absent: sweep skipped, public path only")
            return
        prio = spec["prio"]
        pairs = [(a, b) for a in BOUNDARY[:6] + [255] for b in BOUNDARY[:6] + [255]][:49]
        pairs += [(rng.randrange(256), rng.randrange(256)) for _ in range(15)]
        ids = ((prio << 26) | (dp << 24) | (pf << 16) | (ps << 8) | sa
               for dp in range(4) for pf in range(256) for ps, sa in pairs)
        n = check_ids(ids, acc)
        if prio == 0:
            # every 29-bit number the code under test mentions literally, as an identifier
            n += check_ids(iter(gen.harvested_in(0, (1 << 29) - 1)), acc)
        acc.case(("sweep_quick", prio), n=n)
        # every identifier is distinct; count them as distinct non-trivial without hashing each one
        for dp in range(4):
            for pf in range(0, 256):
                acc.case(("q", prio, dp, pf), n=0)
        acc.set_exhaustive("priority x DP x PF", True)
        acc.sample({"identifier_block": f"prio={prio} all DP x PF x {len(pairs)} (PS,SA) pairs", "count": n})
    elif kind == "sweep_full":
        if not have_pair():
            acc.note("internal parse/build pair absent: sweep skipped, public path only")
            acc.set_exhaustive("all 2^29 identifiers", False)
            return
        total = 1 << 29
        lo = total * spec["i"] // spec["n"]
        hi = total * (spec["i"] + 1) // spec["n"]
        n = check_ids(range(lo, hi), acc)
        acc.case(None, n=n)
        for blk in range(lo >> 16, (hi + 65535) >> 16):
            acc.case(("blk", blk), n=0)       # one distinct key per 65536-identifier block
        acc.set_exhaustive("all 2^29 identifiers", True)
        acc.sample({"identifier_range": [lo, hi]})
    elif kind == "public":
        public_path(spec, rng, acc)
        undefined_pgns(spec, rng, acc)
    elif kind == "stub":
        stub_path(spec, rng, acc)


def hdr(m):
    return (m.priority, m.PGN, m.source, m.destination)


def public_path(spec, rng, acc):
    """Known PGNs: harness-built frames into every decode front-end, and encode->decode for encodable ones."""
    dbx = refdb.db()
    dec = NMEA2000Decoder()
    long_dec = NMEA2000Decoder()
    excl = {}
    enc = NMEA2000Encoder()
    defs = [d for d in dbx.defs if d.supported and d.fixed_layout and d.type in ("Single", "Fast")]
    defs = [d for k, d in enumerate(defs) if k % spec["n"] == spec["i"]]
    quick = spec["tier"] == "quick"
    addr = [(0, 255), (255, 0), (1, 2), (254, 254), (17, 239), (240, 128)]
    for d in defs:
        payload = dbx.pack(d, gen.base_raws(d, rng, dbx))
        nb = d.length if d.length is not None else (d.total_bits() + 7) // 8
        if dbx.select(d.pgn, payload) is not d:
            continue
        pb = payload.to_bytes(nb, "little")
        pdu1 = ((d.pgn >> 8) & 0xFF) < 240
        kept = []
        combos = [(p, s, t) for p in range(8) for s, t in addr]
        combos += [(rng.randrange(8), rng.randrange(256), rng.randrange(256)) for _ in range(4 if quick else 60)]
        if quick:
            combos = combos[::3]
        for prio, src, dst in combos:
            exp = (prio, d.pgn, src, dst if pdu1 else 255)
            ident = wire.can_id(prio, d.pgn, src, dst)
            # decode side: whole-message formats always; frame formats for single-frame PGNs
            try:
                outs = {"actisense": dec.decode_actisense_string(wire.actisense_line(prio, d.pgn, src, dst if pdu1 else 255, pb))}
                if d.type == "Single" and nb <= 8:
                    outs["ebyte"] = dec.decode_tcp(wire.ebyte_frame(ident, pb))
                    if not pdu1 and (d.pgn & 0xFF):
                        # a decoder that excludes ANOTHER PGN number of the same 256-block (the one with low byte 0 - for an
                        # addressed PGN that byte would be a destination, for these it is part of the number)
                        base_ = d.pgn & ~0xFF
                        de_ = excl.setdefault(base_, NMEA2000Decoder(exclude_pgns=[base_]))
                        r_ = de_.decode_usb(wire.usb_frame(ident, pb)) if prio % 2 else de_.decode_tcp(wire.ebyte_frame(ident, pb))
                        if outs["ebyte"] is not None and r_ is None:
                            acc.violation("decoded-header-mismatch", f"PGN {d.pgn} is not returned by a decoder that excludes PGN {base_}: its identifier is taken for that of {base_}",
                                          {"kind": "public_decode", "fmt": "ebyte/usb", "definition": d.id, "prio": prio, "src": src, "dst": dst, "excluded": base_})
                        outs["frame_with_block_base_excluded"] = r_
                        acc.count("decodes_with_another_pgn_of_the_block_excluded")
                    outs["usb"] = dec.decode_usb(wire.usb_frame(ident, pb))
                    outs["yd"] = dec.decode_yacht_devices_string(wire.yd_line(ident, pb).strip())
                elif d.type == "Fast":
                    fr = wire.fast_frames(pb, rng.randrange(8))
                    fdec = NMEA2000Decoder()
                    r = None
                    for f in fr:
                        r = fdec.decode_tcp(wire.ebyte_frame(ident, f))
                    outs["ebyte_fast"] = r
                    # the same stream right after a message that was cut off after its first frame and had been sent
                    # with another priority (priority is per frame: the message carries that of the frames it is made of)
                    seq2 = rng.randrange(8)
                    other = wire.can_id((prio + 1 + rng.randrange(7)) % 8, d.pgn, src, dst)
                    cut = wire.fast_frames(pb, (seq2 + 1 + rng.randrange(7)) % 8)[0]
                    how = rng.choice(["ebyte", "usb", "yd"])
                    feed1 = {"ebyte": lambda i, f: long_dec.decode_tcp(wire.ebyte_frame(i, f)), "usb": lambda i, f: long_dec.decode_usb(wire.usb_frame(i, f)),
                             "yd": lambda i, f: long_dec.decode_yacht_devices_string(wire.yd_line(i, f).strip())}[how]
                    if len(wire.fast_frames(pb, 0)) > 1:
                        feed1(other, cut)
                    r = None
                    for f in wire.fast_frames(pb, seq2):
                        r = feed1(ident, f)
                    outs[f"{how}_fast_after_cut_off_message"] = r
            except Exception as e:  # noqa: BLE001
                acc.count("decode_failed_not_judged_here")
                acc.note(f"decode raised for {d.id}: {type(e).__name__}: {e}")
                continue
            for fmt, m in outs.items():
                acc.case((fmt, exp))
                acc.count("public_header_roundtrips")
                acc.cover("formats", fmt)
                if m is None:
                    acc.count("decode_returned_none_not_judged_here")
                    continue
                kept.append((m, exp, fmt))
                if hdr(m) != exp:
                    key = "actisense-header-mismatch" if fmt == "actisense" else "decoded-header-mismatch"
                    acc.violation(key, f"{fmt}: sent {exp} decoded {hdr(m)}",
                                  {"kind": "public_decode", "fmt": fmt, "definition": d.id, "prio": prio, "src": src, "dst": dst})
            # encode side (encodable definitions): message -> identifier bytes -> reference parse
            if d.encodable and outs.get("actisense") is not None:
                import copy as _copy
                import dataclasses as _dc
                import json as _json
                # the message to send is a re-addressed copy of a RECEIVED one (whichever front-end it came through), made
                # in one of the ways an application makes such a copy. (The decoded message itself is kept untouched and
                # re-read later.)  prio/src/dst2 differ from what the original carried.
                origin = [k_ for k_ in ("actisense", "ebyte", "usb", "yd", "ebyte_fast") if outs.get(k_) is not None]
                base_m = outs[origin[acc.evaluations % len(origin)]]
                p2, s2, d2 = (prio + 3) % 8, (src + 101) % 254, (dst + 57) % 254
                way = ("deepcopy+assign", "dataclasses.replace", "json-edited", "constructor-from-vars", "copy+assign", "assign-then-through-json")[(acc.evaluations // 3) % 6]
                if (acc.evaluations // 18) % 2 == 0:
                    # header values that are zero (priority 0, source 0, destination 0): they are values like any other
                    p2, s2, d2 = [(0, s2, 0), (0, 0, d2), (p2, 0, 0), (0, 0, 0)][(acc.evaluations // 36) % 4]
                    acc.count("readdressed_copies_with_zero_header_values")
                try:
                    if way == "deepcopy+assign":
                        m = _copy.deepcopy(base_m)
                        m.priority, m.source, m.destination = p2, s2, d2
                    elif way == "copy+assign":
                        m = _copy.copy(base_m)
                        m.destination, m.source, m.priority = d2, s2, p2
                    elif way == "dataclasses.replace":
                        m = _dc.replace(base_m, priority=p2, source=s2, destination=d2)
                    elif way == "assign-then-through-json":
                        m = _copy.deepcopy(base_m)
                        m.priority, m.source, m.destination = p2, s2, d2
                        m = NMEA2000Message.from_json(m.to_json())          # (stored, sent to another process, read back)
                    elif way == "constructor-from-vars":
                        m = NMEA2000Message(**{**vars(base_m), "priority": p2, "source": s2, "destination": d2})
                    else:
                        j_ = _json.loads(base_m.to_json())
                        j_["priority"], j_["source"], j_["destination"] = p2, s2, d2
                        m = NMEA2000Message.from_json(_json.dumps(j_))
                except Exception:  # noqa: BLE001
                    acc.count("copy_failed_not_judged_here")
                    m = None
                acc.cover("ways_of_readdressing_a_received_message", way)
                if m is not None:
                    try:
                        ids2 = {"ebyte": {int.from_bytes(p[1:5], "big") for p in enc.encode_ebyte(m)},
                                "usb": {int.from_bytes(p[5:9], "little") for p in enc.encode_usb(m)},
                                "yd": {int(p.split()[0], 16) for p in enc.encode_yacht_devices(m)}}
                    except Exception:  # noqa: BLE001
                        ids2 = {}
                        acc.count("encode_failed_not_judged_here")
                    ident2 = wire.can_id(p2, d.pgn, s2, d2)
                    for fmt, s_ in ids2.items():
                        acc.count("encoded_identifiers_checked")
                        acc.count("readdressed_copies_of_received_messages_encoded")
                        if s_ != {ident2}:
                            acc.violation("encoded-identifier-mismatch", f"{fmt}: a copy ({way}) of a received message re-addressed to {(p2, d.pgn, s2, d2)} is encoded as "
                                          f"{[hex(x) for x in s_]}, expected {ident2:#x}", {"kind": "public_encode", "fmt": fmt, "definition": d.id, "prio": p2, "src": s2, "dst": d2, "way": way})
                # first a message with this very header that the encoder has to refuse (a field far out of range, or missing): the
                # refusal leaves nothing behind - the valid message with the same header that follows goes out under its own identifier
                if acc.evaluations % 2 == 0:
                    bad_ = _copy.deepcopy(outs["actisense"])
                    bad_.priority, bad_.source, bad_.destination = prio, src, dst
                    tgt_ = [x for x in bad_.fields if not str(x.id).startswith("reserved")]
                    if tgt_:
                        if acc.evaluations % 4 == 0:
                            tgt_[-1].value = tgt_[-1].raw_value = 10 ** 30
                        else:
                            bad_.fields = [x for x in bad_.fields if x is not tgt_[0]]
                        for fn_ in (enc.encode_ebyte, enc.encode_usb, enc.encode_yacht_devices)[acc.evaluations % 3:][:1]:
                            try:
                                fn_(bad_)
                            except Exception:  # noqa: BLE001
                                acc.count("messages_refused_by_the_encoder_before_a_valid_one_with_the_same_header")
                m = _copy.deepcopy(outs["actisense"])
                m.priority, m.source, m.destination = prio, src, dst     # non-canonical for PDU2 when dst != 255
                try:
                    eb = enc.encode_ebyte(m)
                    ub = enc.encode_usb(m)
                    yb = enc.encode_yacht_devices(m)
                    at = enc.encode_actisense(m)
                except Exception as e:  # noqa: BLE001
                    acc.count("encode_failed_not_judged_here")
                    continue
                ids = {"ebyte": {int.from_bytes(p[1:5], "big") for p in eb},
                       "usb": {int.from_bytes(p[5:9], "little") for p in ub},
                       "yd": {int(p.split()[0], 16) for p in yb}}
                for fmt, s in ids.items():
                    acc.case(("enc", fmt, exp))
                    acc.count("public_header_roundtrips")
                    acc.count("encoded_identifiers_checked")
                    if s != {ident}:
                        acc.violation("encoded-identifier-mismatch", f"{fmt}: {exp} encoded as {[hex(x) for x in s]} expected {ident:#x}",
                                      {"kind": "public_encode", "fmt": fmt, "definition": d.id, "prio": prio, "src": src, "dst": dst})
                    elif wire.parse_id(ident) != exp:
                        acc.violation("harness-self-check", "reference can_id/parse_id disagree", {"ident": ident})
                # actisense text header round trip
                back = dec.decode_actisense_string("A000000.000 " + at)
                acc.case(("enc", "actisense", exp))
                acc.count("public_header_roundtrips")
                if back is not None and hdr(back) != (prio, d.pgn, src, dst):
                    acc.violation("actisense-header-mismatch", f"actisense text: {(prio, d.pgn, src, dst)} came back {hdr(back)}",
                                  {"kind": "public_encode", "fmt": "actisense", "definition": d.id, "prio": prio, "src": src, "dst": dst})
        # what was returned stays as it was: the messages handed out for the earlier identifiers (same payload, other
        # priority / source / destination) still carry their own header after all the later ones were decoded
        for m_, exp_, fmt_ in kept:
            acc.count("earlier_results_rechecked")
            if hdr(m_) != exp_:
                acc.violation("returned-message-header-changed-later", f"{fmt_}: a message decoded from {exp_} reads {hdr(m_)} after later frames with the same payload were decoded",
                              {"kind": "public_decode", "fmt": fmt_, "definition": d.id, "expected": list(exp_)})
                break
        acc.sample({"definition": d.id, "pgn": d.pgn, "combos": len(combos)}, cap=3)


def undefined_pgns(spec, rng, acc):
    """PGN numbers the database does not define (the whole proprietary ranges, and a sample of the rest): the library may
    decline them, but whatever it returns carries the identifier's own PGN, source, destination and priority."""
    dbx = refdb.db()
    dec = NMEA2000Decoder()
    cands = [p for p in list(range(0xFF00, 0x10000)) + list(range(0x1FF00, 0x20000)) + [0xEF00, 0x1EF00] + [rng.randrange(1 << 18) for _ in range(1500)]
             if p not in dbx.by_pgn]
    cands = [p for k, p in enumerate(cands) if k % spec["n"] == spec["i"]]
    for pgn in cands:
        prio, src, dst = rng.randrange(8), rng.randrange(256), rng.randrange(256)
        pdu1 = ((pgn >> 8) & 0xFF) < 240
        if pdu1:
            pgn &= 0x3FF00
        ident = wire.can_id(prio, pgn, src, dst)
        body = bytes([0xFE, 0x07]) + bytes(rng.randrange(256) for _ in range(6))
        outs = []
        try:
            outs.append(("ebyte", dec.decode_tcp(wire.ebyte_frame(ident, body))))
            outs.append(("usb", dec.decode_usb(wire.usb_frame(ident, body))))
            r = None
            for f in wire.fast_frames(body + bytes(5), rng.randrange(8), 0xFF):
                r = dec.decode_yacht_devices_string(wire.yd_line(ident, f).strip())
            outs.append(("yd_fast", r))
            outs.append(("actisense", dec.decode_actisense_string(wire.actisense_line(prio, pgn, src, dst if pdu1 else 255, body))))
        except Exception:  # noqa: BLE001 - declining with an error is fine
            pass
        acc.count("undefined_pgns_tried")
        exp = (prio, pgn, src, dst if pdu1 else 255)
        for fmt, m in outs:
            if m is None:
                continue
            acc.case((fmt, exp))
            acc.count("undefined_pgn_messages_returned")
            if hdr(m) != exp:
                acc.violation("decoded-header-mismatch", f"{fmt}: a frame of the undefined PGN {pgn} sent as {exp} came back as {hdr(m)} ({m.id})",
                              {"kind": "undefined_pgn", "fmt": fmt, "pgn": pgn, "prio": prio, "src": src, "dst": dst})


def stub_path(spec, rng, acc):
    """Arbitrary 18-bit PGNs through the public encoders using a stub codec registered under the
    generated-encoder naming convention (payload content irrelevant: only the identifier is observed)."""
    enc = NMEA2000Encoder()
    quick = spec["tier"] == "quick"
    pgns = set()
    for dp in range(4):
        for pf in BOUNDARY + [rng.randrange(256) for _ in range(6 if quick else 60)]:
            for ps in ([0] if pf < 240 else BOUNDARY[:4] + [255, rng.randrange(256)]):
                pgns.add((dp << 16) | (pf << 8) | ps)
    installed = []
    n = 0
    # seam self-test: does the encoder pick up a codec registered under the generated naming convention at all?
    probe_name = "encode_pgn_130999"
    had = hasattr(encoder_mod, probe_name)
    if not had:
        setattr(encoder_mod, probe_name, lambda m: b"\x01\x02\x03")
    try:
        enc.encode_ebyte(NMEA2000Message(PGN=130999, id="stub", priority=3, source=1, destination=255))
        seam_ok = True
    except Exception as e:  # noqa: BLE001
        seam_ok = False
        acc.note(f"stub codec seam unavailable ({type(e).__name__}: {e}): arbitrary-PGN encode path not exercised")
    finally:
        if not had:
            delattr(encoder_mod, probe_name)
    if not seam_ok:
        return
    try:
        for pgn in sorted(pgns):
            name = f"encode_pgn_{pgn}"
            if hasattr(encoder_mod, name) or any(k.startswith(name + "_") for k in vars(encoder_mod)):
                continue            # a real codec exists: covered by public_path
            setattr(encoder_mod, name, lambda m: b"\x01\x02\x03")
            installed.append(name)
            for prio, src, dst in [(0, 0, 0), (7, 255, 255), (3, 1, 254), (rng.randrange(8), rng.randrange(256), rng.randrange(256))]:
                m = NMEA2000Message(PGN=pgn, id="stub", priority=prio, source=src, destination=dst)
                try:
                    eb = enc.encode_ebyte(m)
                    ub = enc.encode_usb(m)
                    yb = enc.encode_yacht_devices(m)
                except Exception as e:  # noqa: BLE001
                    # priority 0..7, source/destination 0..255 and an 18-bit PGN are all inside the identifier's
                    # value space: the header must be built for them
                    acc.count("stub_encode_failed")
                    acc.violation("in-range-header-rejected", f"PGN {pgn} prio {prio} src {src} dst {dst}: encode raised {type(e).__name__}: {e}",
                                  {"kind": "stub", "pgn": pgn, "prio": prio, "src": src, "dst": dst})
                    continue
                exp_id = wire.can_id(prio, pgn, src, dst)
                got = {"ebyte": int.from_bytes(eb[0][1:5], "big"), "usb": int.from_bytes(ub[0][5:9], "little"),
                       "yd": int(yb[0].split()[0], 16)}
                for fmt, g in got.items():
                    n += 1
                    acc.case(("stub", fmt, prio, pgn, src, dst))
                    acc.count("public_header_roundtrips")
                    acc.count("stub_pgn_identifiers_checked")
                    if g != exp_id:
                        acc.violation("encoded-identifier-mismatch", f"{fmt}: PGN {pgn} prio {prio} src {src} dst {dst} encoded as {g:#x} expected {exp_id:#x}",
                                      {"kind": "stub", "fmt": fmt, "pgn": pgn, "prio": prio, "src": src, "dst": dst})
    finally:
        for name in installed:
            delattr(encoder_mod, name)
    if n == 0:
        acc.note("stub codec seam unavailable (encoder does not look codecs up by name): arbitrary-PGN encode path not exercised")
    acc.sample({"stub_pgns": len(installed), "checks": n})


def replay(w, acc):
    if w.get("kind") == "id":
        check_ids([w["ident"]], acc)
    else:
        acc.note("replay: re-run the check; public-path witnesses name definition/prio/src/dst")
