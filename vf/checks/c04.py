"""C04 - fast-packet reassembly is exact under interleaving, reordering, duplication and loss."""
from __future__ import annotations

import itertools

from ..lib import NMEA2000Decoder
from .. import refdb, gen, wire

ID = "C04"
LEVEL = "fault_enumeration"
RULE = ("cases = frame histories with ground truth: per stream (PGN, source, destination) a sequence of messages with "
        "unique payload bytes; the first frame of each message is delivered once and in order, its other frames are "
        "permuted / duplicated / dropped inside the message's window, stale copies of the previous message's frames are "
        "injected into the next window, streams are interleaved; every history is fed frame by frame to a real decoder "
        "with the last frame unpadded, FF-padded and 00-padded and each per-frame return value is compared with the "
        "expectation computed from ground truth; small scopes are enumerated exhaustively, long histories sampled; "
        "non-trivial = history containing at least one fault (permutation, duplicate, loss, stale frame or interleaving) "
        "and at least one expected message; distinct = distinct event sequence")
ASSUMPTIONS = [
    "fault model (DESIGN.md C04): first frames once and in order; consecutive messages of a stream carry distinct sequence counters (counter = message index mod 8); a message whose original frames are overtaken by the next first frame of its stream counts as lost",
    "payload observed through the binary data field of the PGN 126720 / 130816 fallback definitions",
]
REQUIRED_COUNTERS = ["decoder_returns_checked", "messages_expected_and_returned", "histories_with_faults"]
SHARD_TIMEOUT = {"quick": 300, "thorough": 3000}

HEAD = bytes([0xFE, 0x07])       # manufacturer code 2046, industry 0: selects the fallback definition


def shards(tier, seed):
    out = []
    out.append({"name": "enum-1stream-F2", "kind": "enum1", "F": 2, "tier": tier, "seed": seed})
    out.append({"name": "enum-1stream-F3", "kind": "enum1", "F": 3, "tier": tier, "seed": seed})
    for part in range(4):
        out.append({"name": f"enum-1stream-F4-{part}", "kind": "enum1", "F": 4, "part": part, "parts": 4, "tier": tier, "seed": seed})
    for k, pair in enumerate(["src", "dst", "pgn", "same-src-other-pgn"]):
        out.append({"name": f"enum-2streams-{pair}", "kind": "enum2", "pair": pair, "tier": tier, "seed": seed})
    out.append({"name": "enum-3streams", "kind": "enum3", "tier": tier, "seed": seed})
    for i in range(2 if tier == "quick" else 8):
        out.append({"name": f"same-block-{i}", "kind": "sameblock", "tier": tier, "seed": seed})
    out.append({"name": "many-concurrent-streams", "kind": "manystreams", "tier": tier, "seed": seed})
    out.append({"name": "long-lossy-session", "kind": "soak", "tier": tier, "seed": seed})
    n_rand = 6 if tier == "quick" else 192
    for i in range(n_rand):
        out.append({"name": f"random-{i}", "kind": "random", "i": i, "tier": tier, "seed": seed})
    return out


# ---------------------------------------------------------------------------
# ground truth
# ---------------------------------------------------------------------------

class Msg:
    __slots__ = ("stream", "index", "payload", "seq", "nframes", "obs")

    def __init__(self, stream, index, nbytes, seq=None):
        self.stream, self.index = stream, index
        self.obs = None
        sid = stream[3]
        body = bytes(((sid * 37 + index * 11 + i * 3) % 251) + 1 for i in range(nbytes - 2))
        if (sid + index) % 5 == 3:
            body = b"\xff" * len(body)          # data that looks like padding / like 'not available' (and, with counter 7 and
        elif (sid + index) % 5 == 4:            # frame 31, a frame that is 0xFF throughout)
            body = bytes(len(body))
        elif (sid + index) % 5 == 2 and len(body) > 8:
            body = body[:-8] + b"\xff" * 8
        self.payload = HEAD + body
        self.seq = (index % 8) if seq is None else (seq % 8)
        self.nframes = 1 if nbytes <= 6 else 1 + (nbytes - 6 + 6) // 7


class Claim:
    """An ISO address claim (PGN 60928) from some address, between the frames of other devices' fast packets."""
    __slots__ = ("src", "name", "stream", "index", "payload", "seq", "obs")

    def __init__(self, src, name):
        self.src, self.name = src, name
        self.stream, self.index, self.payload, self.seq, self.obs = (60928, src, 255, 0), 0, name.to_bytes(8, "little"), 0, None


class Trunc:
    """A first frame cut down to nothing but its control byte (a new sequence counter, frame 0, no length, no data), or a frame
    without any data at all: the decoder rejects it (or ignores it) - and the stream it names is exactly where it was."""
    __slots__ = ("stream", "data", "index", "payload", "seq", "obs", "nframes")

    def __init__(self, stream, seq, empty=False):
        self.stream, self.index, self.seq, self.obs, self.nframes = stream, -1, seq % 8, None, 1
        self.data = b"" if empty else bytes([(seq % 8) << 5])
        self.payload = self.data


class BadMsg(Msg):
    """A complete message that the codec refuses when the last frame arrives (a two-frame NMEA group function request the
    generated decoder has no field type for; or a payload of a real definition with a field out of range): an error (or
    nothing) at that moment, and nothing left behind in the stream."""
    __slots__ = ()

    def __init__(self, stream, index, seq, tail: bytes, payload: bytes | None = None):
        self.stream, self.index, self.obs = stream, index, None
        self.payload = payload if payload is not None else bytes([0x00, 0x01, 0xF8, 0x01]) + tail[:5].ljust(5, b"\x11")
        self.seq = seq % 8
        nbytes = len(self.payload)
        self.nframes = 1 if nbytes <= 6 else 1 + (nbytes - 6 + 6) // 7


_REFUSED_PAYLOADS: dict = {}


def refused_payloads(pgn, rng):
    """Payloads of real definitions of this PGN that the library refuses when they are complete (checked once against a decoder
    of their own): a field holds a code outside its range."""
    if pgn not in _REFUSED_PAYLOADS:
        from ..lib import _RealDecoder
        dbx = refdb.db()
        out = []
        probe = _RealDecoder()
        for d in dbx.by_pgn.get(pgn, []):
            if not (d.supported and d.fixed_layout and d.length and 8 < d.length <= 60) or d.fallback:
                continue
            for f in d.fields:
                if f.match is not None or f.bits is None or f.off is None:
                    continue
                for name, u, inr in gen.field_classes(f, rng, 1, dbx):
                    if inr:
                        continue
                    raws = gen.base_raws(d, rng, dbx)
                    raws[f.order] = u
                    p = dbx.pack(d, raws)
                    if dbx.select(pgn, p) is not d:
                        continue
                    pb = p.to_bytes(d.length, "little")
                    try:
                        probe.decode_basic_string(wire.plain_line(3, pgn, 9, 255, pb), already_combined=True)
                    except Exception:  # noqa: BLE001
                        out.append(pb)
                        break
                if len(out) >= 12:
                    break
            if len(out) >= 12:
                break
        _REFUSED_PAYLOADS[pgn] = out
    return _REFUSED_PAYLOADS[pgn]


def frames_of(m: Msg, pad):
    return wire.fast_frames(m.payload, m.seq, pad)


def expected_returns(events):
    """events: list of (msg, frame_index). -> list of msg|None expected at each position."""
    cur = {}          # stream -> [msg, set(frame idx), returned]
    out = []
    for m, i in events:
        if isinstance(m, Claim):
            out.append(m)                     # an address claim: returned as a message of its own, no part of any stream
            continue
        if isinstance(m, Trunc):
            out.append(None)                  # rejected: no part of anything, changes nothing
            continue
        st = cur.get(m.stream)
        if i == 0:
            st = cur[m.stream] = [m, {0}, False]
            if m.nframes == 1:
                st[2] = True
                out.append(m)
            else:
                out.append(None)
            continue
        if st is None or st[0] is not m or st[2] or i in st[1]:
            out.append(None)
            continue
        st[1].add(i)
        if len(st[1]) == m.nframes:
            st[2] = True
            out.append(m)
        else:
            out.append(None)
    return out


class RealMsg(Msg):
    """A message of a real database definition: what must come back is the decode of its payload (taken once from a
    fresh decoder given the payload pre-assembled)."""
    __slots__ = ()

    def __init__(self, stream, index, payload: bytes, seq, obs):
        self.stream, self.index, self.payload, self.seq, self.obs = stream, index, payload, seq % 8, obs
        nbytes = len(payload)
        self.nframes = 1 if nbytes <= 6 else 1 + (nbytes - 6 + 6) // 7


def obs_real(r):
    return (r.PGN, r.source, r.destination, tuple((f.id, repr(f.raw_value)) for f in r.fields))


def obs_of_msg(m):
    if m.obs is not None:
        return m.obs
    return (m.stream[0], m.stream[1], m.stream[2] if ((m.stream[0] >> 8) & 0xFF) < 240 else 255, int.from_bytes(m.payload, "little"))


def observe(r):
    """(pgn, src, dst, payload-int) from a returned fallback message."""
    if r.PGN not in (126720, 130816):
        return obs_real(r)
    v = 0
    for f in r.fields:
        x = f.raw_value if not isinstance(f.value, (bytes, bytearray)) else int.from_bytes(f.value, "big")
        if f.id == "manufacturerCode":
            v |= x
        elif f.id.startswith("reserved"):
            v |= x << 11
        elif f.id == "industryCode":
            v |= x << 13
        elif f.id == "data":
            v |= x << 16
    return (r.PGN, r.source, r.destination, v)


VIEW_BUF = bytearray(13)
USB_BUF = bytearray(20)


def name_for(src):
    from ..hist import claim_name
    return claim_name(3000 + src, 1851, inst_lo=src % 6)


def run_history(events, acc, label, faults: bool, formats=("ebyte",), mapping=False):
    exp = expected_returns(events)
    n_expected = sum(1 for e in exp if e is not None)
    per_pad = {}
    for fmt in formats:
        for pad in (None, 0xFF, 0x00):
            dec = NMEA2000Decoder(build_network_map=True) if mapping else NMEA2000Decoder()
            if mapping:
                # every talker of the history has announced itself (the decoder holds back traffic of unknown sources)
                for src_ in sorted({m_.stream[1] for m_, _ in events if not isinstance(m_, Claim)}):
                    dec.decode_tcp(wire.ebyte_frame(wire.can_id(6, 60928, src_, 255), name_for(src_).to_bytes(8, "little")))
            got = []
            cache = {}
            for pos, (m, i) in enumerate(events):
                if isinstance(m, Claim):
                    try:
                        dec.decode_tcp(wire.ebyte_frame(wire.can_id(6, 60928, m.src, 255), m.payload))
                    except Exception:  # noqa: BLE001
                        pass
                    got.append("claim")
                    continue
                if isinstance(m, Trunc):
                    pgn, src, dst, _ = m.stream
                    try:
                        r = dec.decode_tcp(wire.ebyte_frame(wire.can_id(6, pgn, src, dst), m.data))
                    except Exception:  # noqa: BLE001  (refusing it is fine)
                        r = None
                    if r is not None:
                        acc.violation("payload-never-sent-returned", f"{label}: a frame cut down to {len(m.data)} byte(s) produced a message at position {pos}", witness(events, label, pad, pos))
                    got.append(None)
                    acc.count("truncated_first_frames_in_histories")
                    continue
                key = (id(m), pad)
                if key not in cache:
                    cache[key] = frames_of(m, pad)
                data = cache[key][i]
                pgn, src, dst, _ = m.stream
                ident = wire.can_id(6, pgn, src, dst)
                try:
                    if fmt == "ebyte":
                        r = dec.decode_tcp(wire.ebyte_frame(ident, data))
                    elif fmt == "ebyte_view":
                        # the recv_into pattern: every frame lands in the same buffer, the decoder is given a view of it
                        VIEW_BUF[:] = wire.ebyte_frame(ident, data)
                        r = dec.decode_tcp(memoryview(VIEW_BUF))
                    elif fmt == "usb_view":
                        USB_BUF[:] = wire.usb_frame(ident, data)
                        r = dec.decode_usb(memoryview(USB_BUF))
                    else:
                        r = dec.decode_yacht_devices_string(wire.yd_line(ident, data).strip())
                except Exception as e:  # noqa: BLE001
                    if isinstance(m, BadMsg):
                        got.append(None)          # the refusal of an undecodable message (at whichever frame): expected
                        acc.count("undecodable_messages_refused_in_histories")
                        continue
                    acc.violation("decode-raised-on-history", f"{label}: {type(e).__name__}: {e} at position {pos}", witness(events, label, pad, pos))
                    got.append("exc")
                    continue
                acc.count("decoder_returns_checked")
                e = exp[pos]
                if isinstance(m, BadMsg) or isinstance(e, BadMsg):
                    got.append(None)
                    if r is not None:
                        acc.violation("payload-never-sent-returned", f"{label}: the undecodable message of stream {m.stream} produced a message at position {pos}",
                                      witness(events, label, pad, pos))
                    continue
                if r is None:
                    got.append(None)
                    if e is not None:
                        acc.violation("complete-message-not-returned",
                                      f"{label}: message {e.index} of stream {e.stream} complete at position {pos} but nothing returned",
                                      witness(events, label, pad, pos))
                    continue
                o = observe(r)
                got.append(o)
                want = None if e is None else obs_of_msg(e)
                if e is None:
                    sent = any(o == obs_of_msg(mm) for mm, _ in events)
                    key2 = "message-returned-again-or-early" if sent else "payload-never-sent-returned"
                    acc.violation(key2, f"{label}: unexpected message at position {pos} (payload {'was' if sent else 'was NOT'} one of the sent payloads)",
                                  witness(events, label, pad, pos, o))
                elif o != want:
                    acc.violation("returned-payload-differs", f"{label}: message {e.index} of stream {e.stream} returned with different payload/addressing",
                                  witness(events, label, pad, pos, o))
                else:
                    acc.count("messages_expected_and_returned")
            per_pad[(fmt, pad)] = got
    vals = list(per_pad.values())
    if any(v != vals[0] for v in vals[1:]):
        acc.violation("result-depends-on-padding-or-format", f"{label}: results differ between padding/format variants", witness(events, label, None, -1))
    acc.case(tuple((m.stream, m.index, i) for m, i in events) if (faults and n_expected) else None)
    if faults:
        acc.count("histories_with_faults")
    return exp


def witness(events, label, pad, pos, observed=None):
    return {"label": label, "pad": pad, "position": pos, "observed": observed,
            "events": [[list(m.stream), m.index, i, len(m.payload), m.seq] for m, i in events][:120],
            "claims": [[m.src, m.name] for m, _ in events if isinstance(m, Claim)] or None,
            "real_payloads": {f"{m.stream[0]}#{m.index}": m.payload.hex() for m, _ in events if m.obs is not None} or None}


# ---------------------------------------------------------------------------
# enumerations
# ---------------------------------------------------------------------------

def multiset_orderings(counts):
    """All distinct orderings of a multiset {item: count}."""
    items = [k for k, c in counts.items() for _ in range(c)]
    seen = set()
    for p in itertools.permutations(items):
        if p not in seen:
            seen.add(p)
            yield p


def window_variants(m: Msg, max_dup=1):
    """All (ordering of non-first frames with drop/dup) variants of one message window (first frame first)."""
    idx = list(range(1, m.nframes))
    for counts in itertools.product(range(0, 2 + max_dup), repeat=len(idx)):
        cd = {i: c for i, c in zip(idx, counts)}
        for order in multiset_orderings(cd):
            yield [(m, 0)] + [(m, i) for i in order], counts


def nbytes_for_frames(F, rng):
    lo = 7 + 7 * (F - 2) if F > 1 else 3
    hi = 6 + 7 * (F - 1)
    return rng.randint(max(lo, 3), hi)


STREAM_A = (126720, 21, 44, 1)
STREAM_B_SRC = (126720, 22, 44, 2)
STREAM_B_DST = (126720, 21, 45, 3)
STREAM_B_PGN = (130816, 21, 255, 4)
STREAM_C = (130816, 23, 255, 5)


def enum1(spec, acc):
    rng = gen.rng_for(spec["seed"], ID, spec["name"])
    F = spec["F"]
    quick = spec["tier"] == "quick"
    m1 = Msg(STREAM_A, 0, nbytes_for_frames(F, rng))
    m0 = Msg(STREAM_A, 7, nbytes_for_frames(2, rng))        # previous message (seq 7) for stale frames
    n = 0
    variants = list(window_variants(m1, max_dup=1 if (quick or F == 4) else 2))
    if "part" in spec:
        variants = variants[spec["part"]::spec["parts"]]
    acc.set_exhaustive(f"1 stream, {F}-frame message: all orderings x drop/dup multisets x all 7 counter distances to the next message", True)
    # the successor's sequence counter is any value other than the damaged message's (the standard only asks
    # for consecutive counters to differ): every distance 1..7 is enumerated
    gaps = [1, 2, 3, 4, 5, 6, 7]
    followers = {g: Msg(STREAM_A, 1, nbytes_for_frames(rng.choice([2, 3]), rng), seq=g) for g in gaps}
    for vi, (w1, counts) in enumerate(variants):
        for gap in (gaps if (F < 4 or not quick) else [gaps[vi % 7], 4]):
            m2 = followers[gap]
            faults = any(c != 1 for c in counts) or [i for _, i in w1[1:]] != sorted(i for _, i in w1[1:])
            tail = [(m2, i) for i in range(m2.nframes)]
            run_history(w1 + tail, acc, f"enum1 F={F} counts={counts}", faults or True)
            n += 1
            # stale frame of the faulty message landing inside the next message's window
            if n % (3 if quick else 1) == 0:
                for j in range(1, m1.nframes):
                    for posn in range(1, len(tail) + 1):
                        ev = w1 + tail[:posn] + [(m1, j)] + tail[posn:]
                        run_history(ev, acc, f"enum1 F={F} counts={counts} stale m1.{j}@{posn}", True)
            # a stale frame of the *previous* message (other sequence counter) inside this window
            if n % (5 if quick else 1) == 0:
                pre = [(m0, i) for i in range(m0.nframes)]
                for posn in range(1, len(w1) + 1):
                    ev = pre + w1[:posn] + [(m0, 1)] + w1[posn:] + tail
                    run_history(ev, acc, f"enum1 F={F} counts={counts} stale m0.1@{posn}", True)
            acc.cover("loss_dup_patterns", counts)
    acc.sample({"kind": "enum1", "F": F, "variants": n, "example": witness(variants[len(variants) // 2][0], "example", None, -1)["events"]})


def interleavings(a, b, limit, rng):
    """All (or a sample of) order-preserving merges of two event lists."""
    n, m = len(a), len(b)
    import math
    total = math.comb(n + m, n)
    if total <= limit:
        for pos in itertools.combinations(range(n + m), n):
            s = set(pos)
            ia = ib = 0
            out = []
            for k in range(n + m):
                if k in s:
                    out.append(a[ia]); ia += 1
                else:
                    out.append(b[ib]); ib += 1
            yield out
    else:
        for _ in range(limit):
            ia = ib = 0
            out = []
            while ia < n or ib < m:
                if ib >= m or (ia < n and rng.random() < 0.5):
                    out.append(a[ia]); ia += 1
                else:
                    out.append(b[ib]); ib += 1
            yield out


def stream_script(stream, rng, shapes):
    """Event list of one stream for the given per-message shapes: 'ok','perm','dup','loss','single'."""
    ev = []
    seq = rng.randrange(8)
    for k, shape in enumerate(shapes):
        F = 1 if shape == "single" else rng.choice([2, 3])
        seq = (seq + rng.randint(1, 7)) % 8          # any counter other than the previous message's
        m = Msg(stream, k, nbytes_for_frames(F, rng), seq=seq)
        idx = list(range(1, m.nframes))
        if shape == "perm":
            idx.reverse()
        elif shape == "dup" and idx:
            idx = idx + [idx[0]]
            rng.shuffle(idx)
        elif shape == "loss" and idx:
            idx = idx[:-1]
        ev += [(m, 0)] + [(m, i) for i in idx]
    return ev


def enum2(spec, acc):
    rng = gen.rng_for(spec["seed"], ID, spec["name"])
    quick = spec["tier"] == "quick"
    other = {"src": STREAM_B_SRC, "dst": STREAM_B_DST, "pgn": STREAM_B_PGN, "same-src-other-pgn": STREAM_B_PGN}[spec["pair"]]
    shapes_list = [("ok",), ("perm",), ("dup",), ("loss", "ok"), ("ok", "single"), ("perm", "dup")]
    limit = 80 if quick else 2000
    for sa in shapes_list:
        for sb in shapes_list:
            a = stream_script(STREAM_A, rng, sa)
            b = stream_script(other, rng, sb)
            for ev in interleavings(a, b, limit, rng):
                run_history(ev, acc, f"enum2 {spec['pair']} A={sa} B={sb}", True,
                            formats=("ebyte", "yd", "ebyte_view", "usb_view") if acc.evaluations % 50 == 0 else ("ebyte",))
            acc.cover("stream_shape_pairs", (sa, sb))
    acc.set_exhaustive("2 streams: all interleavings of short scripts (up to the per-pair limit)", False if quick else True)


def enum3(spec, acc):
    rng = gen.rng_for(spec["seed"], ID, spec["name"])
    quick = spec["tier"] == "quick"
    for rep in range(20 if quick else 2000):
        a = stream_script(STREAM_A, rng, rng.choice([("ok",), ("perm",), ("loss", "ok")]))
        b = stream_script(STREAM_B_SRC, rng, rng.choice([("ok",), ("dup",), ("perm",)]))
        c = stream_script(STREAM_C, rng, rng.choice([("ok",), ("single", "ok")]))
        for ab in interleavings(a, b, 12, rng):
            for ev in interleavings(ab, c, 12, rng):
                run_history(ev, acc, "enum3", True)


def random_histories(spec, acc):
    rng = gen.rng_for(spec["seed"], ID, spec["name"])
    quick = spec["tier"] == "quick"
    streams = [STREAM_A, STREAM_B_SRC, STREAM_B_DST, STREAM_B_PGN, STREAM_C]
    for h in range(25 if quick else 600):
        use = rng.sample(streams, rng.randint(1, 4))
        scripts = []
        for st in use:
            ev = []
            prev = None
            seq = rng.randrange(8)
            for k in range(rng.randint(2, 12)):
                nb = rng.choice([3, 6, 7, 13, 14, 20, 27, 50, 100, 223, rng.randint(3, 223)])
                seq = (seq + rng.randint(1, 7)) % 8
                m = Msg(st, k, nb, seq=seq)
                idx = list(range(1, m.nframes))
                mode = rng.random()
                if mode < 0.3:
                    rng.shuffle(idx)
                elif mode < 0.5 and idx:
                    for _ in range(rng.randint(1, 3)):
                        idx.insert(rng.randrange(len(idx) + 1), rng.choice(idx))
                elif mode < 0.7 and idx:
                    for _ in range(rng.randint(1, min(3, len(idx)))):
                        idx.pop(rng.randrange(len(idx)))
                    rng.shuffle(idx)
                win = [(m, 0)] + [(m, i) for i in idx]
                if prev is not None and prev.nframes > 1 and rng.random() < 0.4:
                    for _ in range(rng.randint(1, 3)):      # stale frames of the previous message
                        win.insert(rng.randrange(1, len(win) + 1), (prev, rng.randrange(1, prev.nframes)))
                ev += win
                prev = m
            scripts.append(ev)
        merged = scripts[0]
        for s in scripts[1:]:
            merged = next(interleavings(merged, s, 1, rng)) if len(merged) + len(s) > 20 else rng.choice(list(interleavings(merged, s, 200, rng)))
        if h % 3 != 1:
            # rejected input in between: first frames cut down to their control byte (a new counter on a stream that may have a
            # transfer in progress), empty frames; and complete but undecodable messages on streams of their own and on PGN
            # 126208 from the sources of the other streams
            for _ in range(rng.randint(1, 6)):
                st_ = rng.choice(use)
                merged.insert(rng.randrange(len(merged) + 1), (Trunc(st_, rng.randrange(8), empty=rng.random() < 0.25), 0))
            for b_ in range(rng.randint(0, 2)):
                src_ = rng.choice(use)[1]
                bm = BadMsg((126208, src_, 255, 90 + b_), b_, rng.randrange(8), bytes(rng.randrange(1, 250) for _ in range(5)))
                at = rng.randrange(len(merged) + 1)
                merged.insert(at, (bm, 0))
                merged.insert(rng.randrange(at + 1, len(merged) + 1), (bm, 1))
            # ... and ON the streams of the history: a complete message of a real definition of that PGN with a field out of
            # range, its frames in order and together, right before one of the stream's own messages
            for st_ in use:
                ref_ = refused_payloads(st_[0], rng)
                firsts = [k_ for k_, (m_, i_) in enumerate(merged) if isinstance(m_, Msg) and not isinstance(m_, BadMsg) and m_.stream == st_ and i_ == 0]
                if ref_ and firsts and rng.random() < 0.7:
                    at = rng.choice(firsts)
                    nxt = merged[at][0]
                    # (its counter differs from the stream's previous and next message: consecutive messages of a stream never
                    # carry the same counter)
                    before_ = [m_.seq for m_, i_ in merged[:at] if isinstance(m_, Msg) and m_.stream == st_]
                    avoid_ = set(before_[-12:]) | {nxt.seq}
                    if len(avoid_) >= 8:
                        continue
                    seq_ = next(q_ for q_ in range(8) if q_ not in avoid_)
                    bm = BadMsg(st_, 1000 + at, seq_, b"", payload=rng.choice(ref_))
                    merged[at:at] = [(bm, k_) for k_ in range(bm.nframes)]
                    acc.count("undecodable_messages_on_the_streams_of_the_history")
        if h % 2 == 0:
            # address claims in between - first claims and take-overs (another NAME on the same address) - from addresses
            # whose decimal digits are a prefix of the streams' sources and destinations (2, 21, 25, 4, 44 ...) and from others
            from ..hist import claim_name
            addrs = [2, 25, 4, 44, 21, 3, 250, rng.randrange(252)]
            for _ in range(rng.randint(2, 8)):
                a_ = rng.choice(addrs)
                merged.insert(rng.randrange(len(merged) + 1), (Claim(a_, claim_name(rng.randrange(1 << 20), rng.choice([1851, 137, 229]))), 0))
            acc.count("histories_with_address_claims_in_between")
        mapping = h % 4 == 3
        if mapping:
            # on a decoder that builds the network map: the NAME of a talker shows up on ANOTHER address as well (the device
            # answers on two addresses, or a second unit was configured with the same NAME) - the talker goes on talking
            for _ in range(rng.randint(1, 4)):
                st_ = rng.choice(use)
                merged.insert(rng.randrange(len(merged) + 1), (Claim(rng.choice([240, 241, 248]), name_for(st_[1])), 0))
            acc.count("histories_on_a_mapping_decoder_with_a_name_on_two_addresses")
        run_history(merged, acc, f"random #{h}", True, formats=("ebyte", "ebyte_view") if h % 3 == 0 else (("ebyte", "usb_view") if h % 3 == 1 else ("ebyte",)), mapping=mapping)
        acc.cover("history_lengths", len(merged) // 50 * 50)
    acc.sample({"kind": "random", "streams": len(streams)})


def sameblock(spec, acc):
    """Two fast-packet PGNs of the same 256-PGN block (equal upper identifier bytes, e.g. 129029 and 129039) sent by
    ONE source to the broadcast address, interleaved: streams are told apart by the whole PGN number."""
    dbx = refdb.db()
    rng = gen.rng_for(spec["seed"], ID, spec["name"])
    quick = spec["tier"] == "quick"
    cands = [d for d in dbx.defs if d.supported and d.fixed_layout and d.type == "Fast" and d.length and 8 <= d.length <= 60 and not d.match_fields
             and ((d.pgn >> 8) & 0xFF) >= 240 and not any(f.offset is not None for f in d.fields) and len(dbx.by_pgn[d.pgn]) == 1]
    blocks = {}
    for d in cands:
        blocks.setdefault(d.pgn >> 8, []).append(d)
    pairs = [(a, b) for ds in blocks.values() for a in ds for b in ds if a.pgn < b.pgn]
    if not pairs:
        acc.inconclusive_because("no two fast-packet PGNs of one 256-PGN block in the database")
        return
    ref = NMEA2000Decoder()

    def script(d, sid, shapes):
        ev = []
        seq = rng.randrange(8)
        for k, shape in enumerate(shapes):
            for _ in range(30):
                pb = dbx.pack(d, gen.base_raws(d, rng, dbx)).to_bytes(d.length, "little")
                try:
                    r = ref.decode_basic_string(wire.plain_line(6, d.pgn, 21, 255, pb), already_combined=True)
                except Exception:  # noqa: BLE001
                    r = None
                if r is not None:
                    break
            else:
                return None
            seq = (seq + rng.randint(1, 7)) % 8
            m = RealMsg((d.pgn, 21, 255, sid), k, pb, seq, obs_real(r))
            idx = list(range(1, m.nframes))
            if shape == "perm":
                rng.shuffle(idx)
            elif shape == "dup" and idx:
                idx = idx + [rng.choice(idx)]
                rng.shuffle(idx)
            elif shape == "loss" and idx:
                idx.pop(rng.randrange(len(idx)))
            ev += [(m, 0)] + [(m, i) for i in idx]
        return ev
    shapes_list = [("ok",), ("perm",), ("dup", "ok"), ("loss", "ok"), ("ok", "ok")]
    for rep in range(40 if quick else 1500):
        a, b = rng.choice(pairs)
        sa, sb = script(a, 6, rng.choice(shapes_list)), script(b, 7, rng.choice(shapes_list))
        if sa is None or sb is None:
            continue
        # equal and unequal sequence counters on the two streams both occur (random starts)
        for ev in interleavings(sa, sb, 6 if quick else 30, rng):
            run_history(ev, acc, f"sameblock {a.pgn}+{b.pgn}", True, formats=("ebyte", "ebyte_view") if rep % 4 == 0 else ("ebyte",))
            acc.count("same_block_histories")
        acc.cover("same_block_pairs", f"{a.pgn}+{b.pgn}")


def manystreams(spec, acc):
    """Many (PGN, source, destination) streams in flight at the same time - more than any small table would hold: a
    large network, or a few talkers addressing many devices. Every stream sends one message; the frames of all
    messages are interleaved round-robin (every message is open until the last round)."""
    rng = gen.rng_for(spec["seed"], ID, spec["name"])
    quick = spec["tier"] == "quick"
    for n_streams in ([70, 130, 300] if quick else [65, 70, 100, 130, 200, 300, 500, 1000]):
        pairs = set()
        while len(pairs) < n_streams:
            pairs.add((rng.randrange(0, 252), rng.randrange(0, 252)))
        msgs = []
        for sid, (src, dst) in enumerate(sorted(pairs)):
            pgn = 126720 if sid % 3 else 130816
            msgs.append(Msg((pgn, src, dst if pgn == 126720 else 255, sid), 0, rng.choice([13, 14, 20, 27]), seq=rng.randrange(8)))
        # PDU2 streams must differ in the source (the destination is not part of their identity)
        seen, keep = set(), []
        for m in msgs:
            key = (m.stream[0], m.stream[1], m.stream[2])
            if key not in seen:
                seen.add(key)
                keep.append(m)
        msgs = keep
        events = []
        for k in range(max(m.nframes for m in msgs)):
            order = list(msgs)
            rng.shuffle(order)
            events += [(m, k) for m in order if k < m.nframes]
        run_history(events, acc, f"manystreams {len(msgs)}", True)
        acc.count("many_concurrent_stream_histories")
        acc.cover("concurrent_streams", len(msgs))


def soak(spec, acc):
    """One decoder through a long session on a lossy bus: thousands of long messages that are never completed (their
    last frames are lost; the next first frame of the stream starts over), on a handful of streams. Every few hundred of
    them two complete messages arrive on other streams with their frames strictly interleaved: nothing of theirs is lost,
    so both come back - however much has been abandoned before. The volume abandoned is at least 330 KB and at least twice
    any byte count the code under test mentions (a budget, a cache size)."""
    rng = gen.rng_for(spec["seed"], ID, spec["name"])
    quick = spec["tier"] == "quick"
    big = max(gen.harvested_in(20_000, 8_000_000) or [0])
    n_bytes = max(330_000, min(2 * big + 10_000, 1_200_000 if quick else 6_000_000))
    if not quick:
        n_bytes = max(n_bytes, 1_500_000)
    events = []
    abandoned = stored = probes = 0
    j = 0
    while stored < n_bytes:
        # first one talker whose messages keep being cut short, later five of them in turn
        which = 0 if stored < n_bytes * 0.6 else j % 5
        src = (3, 35, 30, 77, 203)[which]
        m = Msg((130816, src, 255, 10 + which), j, rng.choice([223, 223, 223, 118, 60]), seq=j if which == 0 else j // 5)
        keep = m.nframes - 1 if j % 3 else rng.randint(1, m.nframes - 1)
        events += [(m, k) for k in range(keep)]
        stored += 6 + 7 * (keep - 1)
        abandoned += 1
        j += 1
        if abandoned % 400 == 0 or stored >= n_bytes:
            b = Msg((130816, 1, 255, 1), j, (47, 223, 118)[probes % 3], seq=j)
            c = Msg((126720, 2, 9, 2), j, (30, 223, 60)[probes % 3], seq=j + 3)
            d = Msg((130816, 2, 255, 3), j, (20, 223, 47)[probes % 3], seq=j + 5)
            trio = (b, c, d) if probes % 2 else (b, c)
            for k in range(max(x.nframes for x in trio)):
                events += [(x, k) for x in trio if k < x.nframes]
            probes += 1
    run_history(events, acc, f"long lossy session: {abandoned} abandoned messages ({stored} bytes), {probes} interleaved probes", True)
    acc.count("long_lossy_sessions")
    acc.count("messages_abandoned_in_long_sessions", abandoned)
    acc.count("bytes_abandoned_in_long_sessions", stored)
    acc.count("interleaved_probes_in_long_sessions", probes)


def run_shard(spec, acc):
    dbx = refdb.db()
    # the fallback definitions must be what HEAD selects, otherwise payloads are not observable
    for pgn in (126720, 130816):
        d = dbx.select(pgn, int.from_bytes(HEAD + b"\x01\x02\x03", "little"))
        if d is None or not d.fallback:
            acc.inconclusive_because(f"HEAD does not select the fallback definition of PGN {pgn}")
            return
    {"enum1": enum1, "enum2": enum2, "enum3": enum3, "random": random_histories, "sameblock": sameblock, "manystreams": manystreams, "soak": soak}[spec["kind"]](spec, acc)


def replay(w, acc):
    ms = {}
    events = []
    real = w.get("real_payloads") or {}
    ref = NMEA2000Decoder()
    for rec in w["events"]:
        st, index, i, nb = rec[:4]
        seq = rec[4] if len(rec) > 4 else None
        k = (tuple(st), index)
        if k not in ms:
            hx = real.get(f"{st[0]}#{index}")
            if hx is not None:
                pb = bytes.fromhex(hx)
                r = ref.decode_basic_string(wire.plain_line(6, st[0], st[1], 255, pb), already_combined=True)
                ms[k] = RealMsg(tuple(st), index, pb, seq or 0, obs_real(r))
            else:
                ms[k] = Msg(tuple(st), index, nb, seq=seq)
        events.append((ms[k], i))
    run_history(events, acc, "replay", True)
