"""C02 - decoding then re-encoding a payload reproduces it on all defined bits."""
from __future__ import annotations

import math

from ..lib import NMEA2000Decoder, NMEA2000Encoder
from .. import refdb, gen, wire

ID = "C02"
LEVEL = "exploration"
RULE = ("cases = (encodable definition, payload) pairs the decoder accepts, built from per-field value classes, "
        "combinations, random bases (thorough: every raw value of every field <= 16 bits); each is decoded by the real "
        "decoder and re-encoded by the real encoder and compared with the original under the union of the definition's "
        "field masks; non-trivial = a payload that was decoded AND re-encoded AND compared; distinct = distinct "
        "(definition, payload)")
ASSUMPTIONS = ["field masks / encodability from canboat.json via vf.refdb",
               "fields wider than 48 bits may differ by |draw| <= 2^(bits-52); non-finite FLOAT fields are not compared",
               "length clause not judged for encodable definitions without a database Length (repeating sets)"]
REQUIRED_COUNTERS = ["roundtrips_compared", "definitions_exercised"]
SHARD_TIMEOUT = {"quick": 300, "thorough": 3000}


def shards(tier, seed):
    n = 16 if tier == "quick" else 64
    return [{"name": f"defs-{i}of{n}", "i": i, "n": n, "tier": tier, "seed": seed} for i in range(n)]


def roundtrip(dbx, dec, enc, d, payload, nb, acc, label):
    line = wire.plain_line(3, d.pgn, 5, 255, payload.to_bytes(nb, "little"))
    try:
        m = dec.decode_basic_string(line, already_combined=True)
    except Exception:  # noqa: BLE001  - payloads the decoder rejects are outside the statement
        acc.case(None)
        acc.count("decoder_rejected")
        return
    if m is None or m.id != d.id:
        acc.case(None)
        acc.count("other_definition_or_none")
        return
    w = {"definition": d.id, "label": label, "payload_hex": payload.to_bytes(nb, "little").hex()}
    if acc.evaluations % 3 == 1:
        # what applications do with a decoded message before passing it on: look at it, print it, serialise it
        try:
            m.to_json()
            repr(m)
            acc.count("messages_serialised_before_reencoding")
        except Exception:  # noqa: BLE001 - C15's business
            pass
    try:
        text = enc.encode_actisense(m)
    except Exception as e:  # noqa: BLE001
        acc.case((d.id, payload))
        key, fid = classify_encode_error(dbx, d, payload, e)
        w.update({"exception": f"{type(e).__name__}: {e}", "field": fid})
        acc.violation(key, f"{d.id}: decoded message cannot be re-encoded: {type(e).__name__}: {e}", w)
        return
    parts = text.split()
    out = bytes.fromhex(parts[2]) if len(parts) > 2 else b""      # an all-zero payload of a definition without Length is empty
    if acc.evaluations % 4 == 0:
        # the application does what it likes with the message it was handed (here: blanks every field); the same payload
        # decoded once more - by this decoder and by a new one - must encode to the same bytes as the first time
        for f_ in m.fields:
            f_.value = None
            f_.raw_value = None
        for dec2 in (dec, NMEA2000Decoder()):
            acc.count("second_decodes_after_editing_the_first_message")
            try:
                text2 = enc.encode_actisense(dec2.decode_basic_string(line, already_combined=True))
            except Exception as e:  # noqa: BLE001
                text2 = f"{type(e).__name__}: {e}"
            if text2 != text:
                acc.violation("second-decode-of-same-payload-differs", f"{d.id}: after the first decoded message was edited by its owner, the same payload decodes / re-encodes as "
                              f"{text2[:80]!r} instead of {text[:80]!r}", w)
                break
    acc.case((d.id, payload))
    acc.count("roundtrips_compared")
    acc.cover("definitions", d.id)
    if d.length is not None and len(out) != d.length:
        acc.violation("reencoded-length", f"{d.id}: re-encoded payload has {len(out)} bytes, definition length {d.length}", dict(w, out=out.hex()))
    re = int.from_bytes(out, "little")
    diff = (re ^ payload) & d.field_mask_union()
    if not diff:
        return
    for f in d.fields:
        fm = f.mask << f.off
        if not diff & fm:
            continue
        a = (payload >> f.off) & f.mask
        b = (re >> f.off) & f.mask
        if f.ftype == "FLOAT":
            x = gen.f32(a)
            if math.isnan(x) or math.isinf(x):
                acc.count("non_finite_float_not_compared")
                continue
        if f.bits > 48:
            if abs(f.sign_extend(a) - f.sign_extend(b)) <= (1 << max(0, f.bits - 52)):
                acc.count("wide_field_rounding_tolerated")
                continue
        key = classify_diff(f, a, b)
        acc.violation(key, f"{d.id}.{f.id} ({f.ftype}, {f.bits} bits{' signed' if f.signed else ''}): raw {a:#x} re-encoded as {b:#x}",
                      dict(w, field=f.id, raw_in=a, raw_out=b, out=out.hex()))
        acc.cover("diff_field_types", f.ftype)


def classify_diff(f, a, b):
    if f.ftype in ("TIME", "DURATION"):
        if a == f.na_raw() and f.signed and b == f.mask:
            return "signed-time-duration-absent-reencoded-all-ones"
        if a != f.na_raw() and abs(f.sign_extend(a) - f.sign_extend(b)) == 1:
            return "time-duration-tick-truncated"
    return f"reencoded-bits-differ:{f.ftype}"


def classify_encode_error(dbx, d, payload, e):
    """Mechanism: the only absent value the encoders cannot take back is an absent DATE (assert isinstance(value, date))."""
    if "out of range after scaling" in str(e):
        # a field wider than the 53-bit float mantissa whose raw value lies within float rounding of the top of
        # its representable range: value/resolution rounds up past the largest legal code
        for f in d.fields:
            if f.ftype in ("NUMBER", "PGN") and f.bits > 53:
                s_raw = f.sign_extend((payload >> f.off) & f.mask)
                top = (1 << (f.bits - 1)) - 2 if f.signed else (1 << f.bits) - 2
                if 0 <= top - s_raw <= (1 << (f.bits - 52)):
                    return "wide-field-top-codes-double-rounding", f.id
    for f in d.fields:
        if f.ftype == "DATE" and ((payload >> f.off) & f.mask) == f.na_raw() and not str(e):
            return "absent-date-not-reencodable", f.id
    return f"reencode-raised:{type(e).__name__}", None


def run_shard(spec, acc):
    dbx = refdb.db()
    tier, seed = spec["tier"], spec["seed"]
    quick = tier == "quick"
    dec, enc = NMEA2000Decoder(), NMEA2000Encoder()
    if spec["i"] % 3 == 1:
        # every third shard decodes on a decoder that builds the network map and knows the sender (device instance and all): what
        # it decodes still encodes to the payload it came from - absent key fields stay absent
        from .. import hist
        dec = NMEA2000Decoder(build_network_map=True)
        dec.decode_basic_string(wire.plain_line(6, 60928, 5, 255, hist.claim_name(4711, 1851, inst_lo=3, inst_hi=2, sys_inst=5).to_bytes(8, "little")), already_combined=True)
        acc.count("shards_decoding_on_a_mapping_decoder_that_knows_the_sender")
    defs = [d for d in dbx.defs if d.encodable]
    # all definitions of one PGN number stay in the same shard (= same process), so that state leaking between
    # sibling definitions of a proprietary PGN is observable
    pgn_order = sorted({d.pgn for d in defs})
    mine = {p for k, p in enumerate(pgn_order) if k % spec["n"] == spec["i"]}
    defs = [d for d in defs if d.pgn in mine]
    # interleaved siblings first and last: A, B, A, C, B ... (a round trip must not depend on what was encoded before)
    by_pgn = {}
    for d in defs:
        by_pgn.setdefault(d.pgn, []).append(d)
    multi = [ds for ds in by_pgn.values() if len(ds) > 1]

    def interleaved(tag):
        for ds in multi:
            r2 = gen.rng_for(seed, ID, "siblings", ds[0].pgn, tag)
            for _ in range(60 if quick else 1500):
                d = r2.choice(ds)
                nb = d.length if d.length is not None else (d.total_bits() + 7) // 8
                roundtrip(dbx, dec, enc, d, dbx.pack(d, gen.base_raws(d, r2, dbx)), nb, acc, f"interleaved-siblings-{tag}")
                acc.count("interleaved_sibling_roundtrips")
    interleaved("before")
    for d in defs:
        rng = gen.rng_for(seed, ID, d.id)
        acc.count("definitions_exercised")
        nb = d.length if d.length is not None else (d.total_bits() + 7) // 8
        fields = [f for f in d.fields if f.match is None]
        base = gen.base_raws(d, rng, dbx)
        # the shared encoder is first asked to send hand-built nonsense of this very definition (an unknown lookup name, an
        # infinite number, a time given as text, a field missing): whatever it answers, the real messages that follow are
        # encoded as if nothing had happened
        try:
            m_bad = dec.decode_basic_string(wire.plain_line(3, d.pgn, 5, 255, dbx.pack(d, base).to_bytes(nb, "little")), already_combined=True)
        except Exception:  # noqa: BLE001
            m_bad = None
        if m_bad is not None and m_bad.id == d.id:
            import copy as _copy
            for k_, fd in enumerate(d.fields):
                lf = next((x for x in m_bad.fields if x.id == fd.id), None)
                if lf is None or fd.match is not None:
                    continue
                mb = _copy.deepcopy(m_bad)
                lb = next(x for x in mb.fields if x.id == fd.id)
                if fd.ftype == "LOOKUP":
                    lb.value, lb.raw_value = "no such name in the table", None
                elif fd.ftype in ("TIME", "DURATION", "DATE"):
                    lb.value, lb.raw_value = "12:34:56", None
                elif fd.ftype in ("NUMBER", "FLOAT"):
                    lb.value = lb.raw_value = float("inf")
                else:
                    mb.fields = [x for x in mb.fields if x.id != fd.id]
                try:
                    enc.encode_actisense(mb)
                except Exception:  # noqa: BLE001 - refusing is fine
                    pass
                acc.count("nonsense_messages_offered_to_the_shared_encoder")
                if k_ >= 5:
                    break
            # ... and messages with TWO things wrong, in definition order: a value that is finite but far outside the field's range,
            # a field missing, a field of the wrong type - every pair of kinds on a few pairs of fields
            cand = [fd for fd in d.fields if fd.match is None and any(x.id == fd.id for x in m_bad.fields)]

            def spoil(msg_, fd_, kind_):
                lb_ = next((x for x in msg_.fields if x.id == fd_.id), None)
                if lb_ is None:
                    return
                if kind_ == "too_large":
                    lb_.value = lb_.raw_value = 10 ** 30
                elif kind_ == "negative":
                    lb_.value = lb_.raw_value = -(10 ** 30)
                elif kind_ == "missing":
                    msg_.fields = [x for x in msg_.fields if x.id != fd_.id]
                else:
                    lb_.value, lb_.raw_value = ["not", "a", "value"], None
            kinds_ = ("too_large", "negative", "missing", "wrong_type")
            pairs_ = [(a_, b_) for a_ in range(len(cand)) for b_ in range(a_ + 1, len(cand))]
            for a_, b_ in (pairs_[:2] + pairs_[-2:])[:4]:
                for k1 in kinds_:
                    for k2 in kinds_:
                        mb = _copy.deepcopy(m_bad)
                        spoil(mb, cand[a_], k1)
                        spoil(mb, cand[b_], k2)
                        try:
                            enc.encode_actisense(mb)
                        except Exception:  # noqa: BLE001
                            pass
                        acc.count("nonsense_messages_offered_to_the_shared_encoder")
                        acc.count("nonsense_messages_with_two_defects")
                        # right away a good message: the refusal has left nothing behind
                        roundtrip(dbx, dec, enc, d, dbx.pack(d, base), nb, acc, f"base after a message refused for {k1}+{k2}")
        roundtrip(dbx, dec, enc, d, dbx.pack(d, base), nb, acc, "base")
        for f in fields:
            for name, u, inr in gen.field_classes(f, rng, 3 if quick else 20, dbx):
                raws = dict(base)
                raws[f.order] = u
                roundtrip(dbx, dec, enc, d, dbx.pack(d, raws), nb, acc, f"{f.id}:{name}")
                acc.cover("value_classes", name)
        for c in range(200 if quick else 5000):
            raws = gen.base_raws(d, rng, dbx)
            if c % 4 == 0:          # several fields at class values at once
                for f in rng.sample(fields, min(len(fields), 3)):
                    cl = [x for x in gen.field_classes(f, rng, 1, dbx) if x[2]]
                    if cl:
                        raws[f.order] = rng.choice(cl)[1]
            roundtrip(dbx, dec, enc, d, dbx.pack(d, raws), nb, acc, "random")
        if not quick:
            for f in fields:
                if f.bits <= 16:
                    for u in range(1 << f.bits):
                        raws = dict(base)
                        raws[f.order] = u
                        roundtrip(dbx, dec, enc, d, dbx.pack(d, raws), nb, acc, f"{f.id}:exhaustive")
                    acc.count("fields_swept_exhaustively")
            acc.set_exhaustive("every raw value of every field <= 16 bits", True)
        else:
            # quick: exhaustive sweep of fields <= 8 bits, strided sweep of TIME/DURATION fields <= 16 bits
            for f in fields:
                if f.bits <= 8:
                    rng_vals = range(1 << f.bits)
                elif f.ftype in ("TIME", "DURATION") and f.bits <= 16:
                    rng_vals = range(0, 1 << f.bits, 97)
                else:
                    continue
                for u in rng_vals:
                    raws = dict(base)
                    raws[f.order] = u
                    roundtrip(dbx, dec, enc, d, dbx.pack(d, raws), nb, acc, f"{f.id}:sweep")
        if acc.evaluations and len(acc.samples) < 4:
            acc.sample({"definition": d.id, "payload_hex": dbx.pack(d, base).to_bytes(nb, "little").hex()})
    interleaved("after")


def replay(w, acc):
    dbx = refdb.db()
    d = dbx.by_id[w["definition"]]
    b = bytes.fromhex(w["payload_hex"])
    roundtrip(dbx, NMEA2000Decoder(), NMEA2000Encoder(), d, int.from_bytes(b, "little"), len(b), acc, w.get("label", "replay"))
