"""C01 - decoded fields match the canboat definition for every PGN and payload.

Monitor: every call of NMEA2000Decoder.decode_basic_string(..., already_combined=True) made by the
workload is recorded (payload, returned message | exception); the oracle is the reference model
(vf.refdb) evaluated on the same payload.
"""
from __future__ import annotations

import math
import random

from ..lib import NMEA2000Decoder
from .. import refdb, gen, project, wire

ID = "C01"
LEVEL = "exploration"
RULE = ("cases = (definition, payload) pairs built by the reference packer from per-field value classes "
        "(range ends, +-1 step, zero, sign boundary, not-available, reserved codes, random), alone and in "
        "combination, plus all-zero/all-one/random payloads and generated variable-length strings; a case is "
        "non-trivial when the decoder returned a message that was compared field-by-field with the reference "
        "model or raised although every field was in range; distinct = distinct (definition id, payload)")
ASSUMPTIONS = [
    "vf.refdb is a faithful reading of canboat.json (independent of python.PGNs.j2); disagreements were triaged by hand",
    "numbers are compared to the exact rational value with 1e-11 relative tolerance; raw_value may follow either the scaled or the integer convention",
    "not judged: fields whose database range includes the all-ones code, out-of-range raws (may fail or decode), repeated field sets beyond the first, the unsupported-type definitions, NaN floats, text that is not generator-made",
]
REQUIRED_COUNTERS = ["messages_compared_with_reference", "fields_compared", "definitions_exercised"]
SHARD_TIMEOUT = {"quick": 300, "thorough": 3000}

TS = "2024-01-01-00:00:00.000"


def line_for(pgn: int, payload: int, nbytes: int, src=1, dst=255, prio=3) -> str:
    b = payload.to_bytes(nbytes, "little") if nbytes else b""
    return f"{TS},{prio},{pgn},{src},{dst},{nbytes}," + ",".join(f"{x:02x}" for x in b)


def shards(tier, seed):
    n = 16 if tier == "quick" else 48
    return [{"name": f"defs-{i}of{n}", "i": i, "n": n, "tier": tier, "seed": seed} for i in range(n)]


# ---------------------------------------------------------------------------
# payload construction
# ---------------------------------------------------------------------------

def nbytes_of(d, payload: int) -> int:
    if d.length is not None:
        need = (payload.bit_length() + 7) // 8
        return max(d.length, need)
    return max((d.total_bits() + 7) // 8 if any(f.off is not None and f.bits is not None for f in d.fields) else 0,
               (payload.bit_length() + 7) // 8, 1)


def fixed_cases(dbx, d, rng, per_field_random, n_random_payloads, n_combo):
    """Yield (label, payload, nbytes, all_in_range, culprit_info)."""
    fields = [f for f in d.fields if f.off is not None and f.bits is not None]
    base = gen.base_raws(d, rng, dbx)
    total_bits = d.total_bits()
    nb = (total_bits + 7) // 8 if d.length is None else d.length
    yield ("base", dbx.pack(d, base), nb)
    for f in fields:
        if f.match is not None:
            continue
        for name, u, _inr in gen.field_classes(f, rng, per_field_random, dbx):
            raws = dict(base)
            raws[f.order] = u
            yield (f"{f.id}:{name}", dbx.pack(d, raws), nb)
    # combinations: several fields at boundary classes at once
    for c in range(n_combo):
        raws = dict(base)
        picks = rng.sample(fields, min(len(fields), rng.randint(2, 5))) if len(fields) >= 2 else fields
        for f in picks:
            if f.match is not None:
                continue
            cl = list(gen.field_classes(f, rng, 1, dbx))
            # prefer in-range classes so the success clause is exercised in combination too
            inr = [c_ for c_ in cl if c_[2]] or cl
            raws[f.order] = rng.choice(inr if rng.random() < 0.8 else cl)[1]
        yield ("combo", dbx.pack(d, raws), nb)
    # fresh bases (all fields random in range)
    for c in range(n_random_payloads):
        yield ("base_random", dbx.pack(d, gen.base_raws(d, rng, dbx)), nb)
    # raw bit patterns, with match fields forced so the definition is still selected
    mm = 0
    mv = 0
    for f in d.match_fields:
        mm |= f.mask << f.off
        mv |= (f.match & f.mask) << f.off
    allone = (1 << (nb * 8)) - 1
    for label, p in (("all_zero", 0), ("all_one", allone), ("random_bits", rng.getrandbits(nb * 8)),
                     ("random_bits", rng.getrandbits(nb * 8))):
        yield (label, (p & ~mm) | mv, nb)


def variable_cases(dbx, d, rng, n):
    """Definitions with STRING_LAU / STRING_LZ / length-prefixed BINARY: payload built field by field."""
    for c in range(n):
        p = 0
        run = 0
        raws_by_order = {}
        texts = {}
        ok = True
        for f in d.fields:
            if f.off is not None:
                run = f.off
            t = f.ftype
            if t in refdb.UNSUPPORTED_TYPES:
                break
            if t == "STRING_LAU":
                mode = c % 8
                if mode >= 6:
                    # text that is not valid in the encoding the control byte announces (a Latin-1 letter in an
                    # 'ASCII' string, a UTF-16 body cut in the middle of a unit or holding a lone surrogate): the
                    # string's content is not judged, but the message must still come back
                    base_txt = gen.rand_text(rng, rng.randint(1, 9))
                    if mode == 6:
                        body = bytearray(base_txt.encode())
                        body.insert(rng.randrange(len(body) + 1), rng.choice((0xE9, 0xFF, 0x80, 0xC3)))
                        b = bytes([len(body) + 2, 1]) + bytes(body)
                    else:
                        body = base_txt.encode("utf-16-le") + rng.choice((b"\x41", b"\x00\xd8", b"\x00\xdc\x41"))
                        b = bytes([len(body) + 2, 0]) + body
                else:
                    n_chars = (0, 1, rng.randint(2, 12), rng.randint(2, 12), rng.randint(13, 30), rng.randint(1, 8))[mode]
                    ascii_ = mode != 3 and mode != 5
                    s = gen.rand_text(rng, n_chars, unicode_=not ascii_)
                    b = gen.lau_bytes(s, ascii_)
                    texts[f.order] = s
                p |= int.from_bytes(b, "little") << run
                run += 8 * len(b)
            elif t == "STRING_LZ":
                mode = c % 6
                if mode == 5:
                    body = bytearray(gen.rand_text(rng, rng.randint(1, 9)).encode())
                    body.insert(rng.randrange(len(body) + 1), rng.choice((0xE9, 0xFF, 0x80, 0xC3)))
                    b = bytes([len(body)]) + bytes(body) + b"\x00"
                else:
                    n_chars = (0, 1, rng.randint(2, 12), rng.randint(13, 30), rng.randint(1, 8))[mode]
                    s = gen.rand_text(rng, n_chars, unicode_=(mode == 4))
                    b = gen.lz_bytes(s)
                    texts[f.order] = s
                p |= int.from_bytes(b, "little") << run
                run += 8 * len(b)
            elif f.bits is None and f.length_field is not None:
                nbits = raws_by_order.get(f.length_field, 0)
                v = rng.getrandbits(nbits) if nbits else 0
                p |= v << run
                run += nbits
            elif f.bits is None:
                ok = False
                break
            else:
                if f.length_field is None and any(g.length_field == f.order for g in d.fields):
                    # this field is the bit-length of a later BINARY field: keep it small and byte-aligned-ish
                    u = rng.choice((0, 8, 16, 24, 40, 5, 13))
                else:
                    u = gen.base_raw_for(f, rng, dbx)
                raws_by_order[f.order] = u
                p |= (u & f.mask) << run
                run += f.bits
        if not ok:
            continue
        nb = max((run + 7) // 8, 1)
        yield (f"variable:{c % 8}", p, nb, texts)


# ---------------------------------------------------------------------------
# oracle
# ---------------------------------------------------------------------------

def lib_float_range_fails(f, raw):
    """True when the exact value is inside the database range but a float product raw*resolution is not."""
    s = f.sign_extend(raw)
    v = s * float(f.res)
    lo = float(f.rmin) if f.rmin is not None else -math.inf
    hi = float(f.rmax) if f.rmax is not None else math.inf
    return v < lo or v > hi


def classify_exception(d, exp, exc):
    """Mechanism key for an exception raised on a payload whose fields are all in range."""
    msg = f"{type(exc).__name__}: {exc}"
    if "below minimum" in msg or "above maximum" in msg:
        off = [e for e in exp if e["kind"] in ("num", "time", "date") and e["field"].offset is not None and e.get("raw_int") is not None
               and not e.get("na")]
        for e in off:
            f = e["field"]
            v = f.sign_extend(e["raw_int"]) * f.res          # what one gets when Offset is ignored
            if (f.rmin is not None and v < f.rmin) or (f.rmax is not None and v > f.rmax):
                return "db-offset-ignored", f.id
        for e in exp:
            if e["kind"] in ("num", "time", "date") and e.get("raw_int") is not None and not e.get("na"):
                f = e["field"]
                if f.offset is None and f.in_range(e["raw_int"]) and lib_float_range_fails(f, e["raw_int"]):
                    return "float-range-boundary", f.id
        return "range-error-on-in-range-payload", None
    if isinstance(exc, AssertionError):
        if any(e.get("len_from_field") for e in exp) or any(f.length_field is not None for f in d.fields):
            return "length-prefixed-binary-assert", None
    if isinstance(exc, IndexError) and any(f.ftype == "STRING_LZ" for f in d.fields):
        return "empty-string-lz", None
    return f"decode-raised:{type(exc).__name__}", None


FRAMEWISE = {"n": 0, "dec": None}


def judge_case(dbx, dec, d, label, payload, nb, acc, texts=None):
    want = dbx.select(d.pgn, payload)
    line = line_for(d.pgn, payload, nb)
    acc.count("decode_calls")
    FRAMEWISE["n"] += 1
    if d.type == "Fast" and 9 <= nb <= 223 and FRAMEWISE["n"] % 4 == 0:
        # the same payload frame by frame, on a decoder that lives for the whole shard, right after ANOTHER message of the same
        # stream was abandoned half-way (every bit of it the opposite of this payload's): what comes back is this payload
        if FRAMEWISE["dec"] is None:
            FRAMEWISE["dec"] = NMEA2000Decoder()
        fdec = FRAMEWISE["dec"]
        q = FRAMEWISE["n"] % 8
        ident = wire.can_id(3, d.pgn, 1, 255)
        other = (~payload) & ((1 << (8 * nb)) - 1)
        use_usb = FRAMEWISE["n"] % 8 >= 4
        try:
            fr_other = wire.fast_frames(other.to_bytes(nb, "little"), q, 0xFF)
            for f_ in fr_other[:1 + (FRAMEWISE["n"] // 8) % max(1, len(fr_other) - 1)]:
                try:
                    fdec.decode_usb(wire.usb_frame(ident, f_)) if use_usb else fdec.decode_tcp(wire.ebyte_frame(ident, f_))
                except Exception:  # noqa: BLE001
                    pass
            msg = None
            for f_ in wire.fast_frames(payload.to_bytes(nb, "little"), (q + 1) % 8, 0xFF):
                msg = fdec.decode_usb(wire.usb_frame(ident, f_)) if use_usb else fdec.decode_tcp(wire.ebyte_frame(ident, f_))
            exc = None
        except Exception as e:      # noqa: BLE001
            msg, exc = None, e
        acc.count("payloads_decoded_frame_by_frame_after_an_abandoned_message")
        label = label + " [frame by frame after an abandoned message]"
    else:
        try:
            msg = dec.decode_basic_string(line, already_combined=True)
            exc = None
        except Exception as e:      # noqa: BLE001 - any failure is an observable outcome
            msg, exc = None, e
    witness = {"definition": d.id, "pgn": d.pgn, "label": label, "payload_hex": payload.to_bytes(nb, "little").hex(),
               "line": line if nb <= 40 else line[:200] + "..."}
    if want is None:
        acc.case(None)
        if msg is not None:
            acc.violation("message-for-unmatched-payload", f"PGN {d.pgn}: payload matches no definition but {msg.id} returned", witness)
        return
    exp = dbx.unpack(want, payload)
    unsupported = any(e["kind"] in ("unsupported", "skip") for e in exp)
    if unsupported:
        acc.case(None)
        acc.count("unsupported_definition_cases")
        if exc is not None and "not supported" in str(exc):
            acc.count("unsupported_rejected_with_message")
        return
    # expected strings for generator-made text
    for e in exp:
        if e["kind"] == "strfix":
            # text is judged only on generator-made content (anything else has no unambiguous expected text)
            e["expected_text"] = gen.expected_string_fix(e["bytes"]) if gen.is_generator_string(e["bytes"]) else None
            if e["expected_text"] is not None:
                acc.count("fixed_strings_judged")
        if e["kind"] == "str" and texts is not None and e["field"].order in texts and not e.get("undecodable"):
            e["judge_text"] = True
    in_range = True
    skip_success_clause = False
    for e in exp:
        f = e["field"]
        if e["kind"] in ("num", "time", "date"):
            if f.range_includes_na():
                if e.get("na"):
                    skip_success_clause = True      # carve-out: all-ones code is inside the range
                continue
            if not e.get("na") and not f.in_range(e["raw_int"]):
                in_range = False
        elif e["kind"] == "float":
            v = e["value"]
            if math.isnan(v) or math.isinf(v):
                in_range = False
            elif (f.rmin is not None and v < float(f.rmin)) or (f.rmax is not None and v > float(f.rmax)):
                in_range = False
        if e.get("len_from_field"):
            lf = next(x for x in exp if x["field"].order == f.length_field)
            if lf.get("na"):
                skip_success_clause = True
    if exc is not None:
        if in_range and not skip_success_clause:
            key, fid = classify_exception(want, exp, exc)
            acc.case(("exc", want.id, payload))
            acc.count("in_range_payload_rejected")
            w = dict(witness)
            w.update({"exception": f"{type(exc).__name__}: {exc}", "field": fid})
            acc.violation(key, f"{want.id}: every field in range but decode raised {type(exc).__name__}: {exc}", w)
        else:
            acc.case(None)
            acc.count("out_of_range_rejected")
        return
    if msg is None:
        acc.case(("none", want.id, payload))
        acc.violation("none-for-supported-definition", f"{want.id}: decode returned None", witness)
        return
    acc.case((want.id, payload))
    acc.count("messages_compared_with_reference")
    acc.count("fields_compared", len(msg.fields))
    acc.cover("definitions", want.id)
    if not in_range:
        acc.count("out_of_range_but_decoded")
    diffs = project.compare_to_ref(dbx, want, payload, msg, exp)
    for fid, aspect, ev, gv, hint in diffs:
        if f_is_na_in_range(want, fid) and aspect in ("value_not_absent", "value", "raw_value"):
            acc.count("na_inside_range_not_judged")
            continue
        if hint.get("offset_dropped"):
            key = "db-offset-ignored"
        elif aspect in ("value", "raw_value") and hint.get("has_offset") and hint.get("kind") in ("num", "time", "date"):
            key = "db-offset-ignored" if _offset_explains(want, fid, ev, gv) else f"field-{aspect}-mismatch"
        else:
            key = f"field-{aspect}-mismatch" if fid != "<msg>" else f"message-{aspect}-mismatch"
        w = dict(witness)
        w.update({"field": fid, "aspect": aspect, "expected": ev, "got": gv})
        acc.violation(key, f"{want.id}.{fid}: {aspect} expected {ev!r} got {gv!r}", w)
    if acc.evaluations % 997 == 0:
        acc.sample({"definition": want.id, "label": label, "payload_hex": witness["payload_hex"],
                    "fields_compared": len(msg.fields), "diffs": len(diffs)})
    for e in exp:
        acc.cover("field_kinds", e["kind"])


_NA_CACHE: dict = {}


def f_is_na_in_range(d, fid):
    k = (d.id, fid)
    if k not in _NA_CACHE:
        f = next((f for f in d.fields if f.id == fid), None)
        _NA_CACHE[k] = bool(f and f.bits is not None and f.range_includes_na())
    return _NA_CACHE[k]


def _offset_explains(d, fid, ev, gv):
    try:
        f = next(f for f in d.fields if f.id == fid)
        from fractions import Fraction
        return project.num_close(float(gv), Fraction(ev) - f.offset)
    except Exception:
        return False


def run_shard(spec, acc):
    dbx = refdb.db()
    tier, seed = spec["tier"], spec["seed"]
    dec = NMEA2000Decoder()
    if spec["i"] % 2 == 1:
        # every second shard: the decoder carries a manufacturer filter (naming somebody else), and the source of all the traffic
        # has announced itself with a NAME whose every sub-field is 'not available' (no manufacturer to filter by): the filter
        # has nothing to say about it, the decoded fields are what they are
        from .. import hist
        dec = NMEA2000Decoder(exclude_manufacturer_code=["Garmin", "Navico"]) if spec["i"] % 4 == 1 else NMEA2000Decoder(include_manufacturer_code=["Garmin"])
        try:
            dec.decode_basic_string(wire.plain_line(6, 60928, 1, 255, ((1 << 64) - 1).to_bytes(8, "little")), already_combined=True)
        except Exception:  # noqa: BLE001
            pass
        acc.count("shards_decoding_from_a_source_with_an_all_not_available_name_under_a_manufacturer_filter")
    defs = gen.shard_by_pgn(dbx.defs, spec["i"], spec["n"])
    quick = tier == "quick"
    per_field_random = 4 if quick else 30
    n_combo = 200 if quick else 12000
    n_rand = 40 if quick else 3000
    n_var = 200 if quick else 12000
    audited = set()
    interleaved_siblings(dbx, dec, defs, f"{seed}-pre", acc, quick)
    for d in defs:
        rng = gen.rng_for(seed, ID, d.id)
        acc.count("definitions_exercised")
        acc.cover("definition_types", d.type)
        if d.fixed_layout:
            for label, payload, nb in fixed_cases(dbx, d, rng, per_field_random, n_rand, n_combo):
                judge_case(dbx, dec, d, label, payload, nb, acc)
                acc.cover("value_classes", label.split(":")[-1])
            lookup_audit(dbx, dec, d, rng, acc, audited)
            # near misses of the definition's match values (one bit of one match field flipped): whatever the database
            # prescribes for that payload - usually the catch-all definition, or nothing - is what must come back
            if d.match_fields:
                base_near = dbx.pack(d, gen.base_raws(d, rng, dbx))
                nb_near = d.length if d.length is not None else (d.total_bits() + 7) // 8
                for f in d.match_fields:
                    for b in range(f.bits):
                        p2 = base_near ^ (1 << (f.off + b))
                        judge_case(dbx, dec, d, f"{f.id}:match-value-one-bit-off", p2, nb_near, acc)
                        acc.count("near_miss_match_payloads")
            if not quick:
                exhaustive_small_fields(dbx, dec, d, rng, acc)
        else:
            for label, payload, nb, texts in variable_cases(dbx, d, rng, n_var):
                judge_case(dbx, dec, d, label, payload, nb, acc, texts)
                acc.cover("value_classes", label)
            lookup_audit_variable(dbx, dec, d, rng, acc, audited)
            # also the fixed-position prefix under field classes
            fields = [f for f in d.fields if f.off is not None and f.bits is not None and f.match is None]
            base_cases = list(variable_cases(dbx, d, rng, 3))
            for f in fields:
                for name, u, _ in gen.field_classes(f, rng, per_field_random, dbx):
                    if not base_cases:
                        break
                    label, payload, nb, texts = base_cases[0]
                    if any(g.length_field == f.order for g in d.fields):
                        continue
                    p2 = (payload & ~(f.mask << f.off)) | (u << f.off)
                    judge_case(dbx, dec, d, f"{f.id}:{name}", p2, max(nb, (p2.bit_length() + 7) // 8), acc, texts)
    # integer constants that the generated code of a PGN compares something with although the database gives no reason
    # (none in the pinned tree): every field of that PGN's definitions is given that value once
    from .. import harvest
    for pgn_, did_, c_ in harvest.unexplained_constants(dbx):
        for d in defs:
            if d.pgn != pgn_ or not d.fixed_layout or (did_ and did_ != d.id and not did_.endswith(d.id)):
                continue
            nb_ = d.length if d.length is not None else (d.total_bits() + 7) // 8
            rng_ = gen.rng_for(seed, ID, "unexplained", d.id, c_)
            for f in d.fields:
                if f.bits is None or f.off is None or f.match is not None:
                    continue
                for v in (c_, c_ - 1, c_ + 1):
                    if 0 <= v <= f.mask:
                        base_ = dbx.pack(d, gen.base_raws(d, rng_, dbx))
                        p2 = (base_ & ~(f.mask << f.off)) | (v << f.off)
                        judge_case(dbx, dec, d, f"{f.id}:constant-from-the-generated-code", p2, nb_, acc)
                        acc.count("unexplained_generated_constants_tried")
    interleaved_siblings(dbx, dec, defs, f"{seed}-post", acc, quick)


def interleaved_siblings(dbx, dec, defs, seed, acc, quick):
    """Sibling definitions of one PGN number decoded alternately on the same long-lived decoder."""
    for ds in gen.sibling_groups([d for d in defs if d.fixed_layout and d.supported]):
        rng = gen.rng_for(seed, ID, "siblings", ds[0].pgn)
        for _ in range(80 if quick else 3000):
            d = rng.choice(ds)
            nb = (d.total_bits() + 7) // 8 if d.length is None else d.length
            judge_case(dbx, dec, d, "interleaved-siblings", dbx.pack(d, gen.base_raws(d, rng, dbx)), nb, acc)
            acc.count("interleaved_sibling_decodes")


def lookup_audit(dbx, dec, d, rng, acc, audited):
    """Every entry of every lookup / bit-lookup / indirect-lookup table is decoded at least once per shard through a
    field that uses it (catches a single altered or missing table entry, also in 16-bit lookups)."""
    fields = [f for f in d.fields if f.off is not None and f.bits is not None and f.match is None]
    base = None
    nb = (d.total_bits() + 7) // 8 if d.length is None else d.length
    for f in fields:
        if f.ftype == "LOOKUP":
            key = ("L", f.lookup, f.bits)
            values = [v for v in dbx.lookups[f.lookup] if 0 <= v <= f.mask]
        elif f.ftype == "BITLOOKUP":
            key = ("B", f.bitlookup, f.bits)
            values = [1 << b for b in dbx.bitlookups[f.bitlookup] if b < f.bits]
        elif f.ftype == "INDIRECT_LOOKUP":
            key = ("I", f.indirect, f.bits)
            values = None
        else:
            continue
        if key in audited:
            continue
        audited.add(key)
        if base is None:
            base = gen.base_raws(d, rng, dbx)
        if values is None:
            other = next((g for g in d.fields if g.order == f.indirect_order), None)
            if other is None or other.off is None:
                continue
            for (v1, v2) in dbx.indirect[f.indirect]:
                raws = dict(base)
                raws[other.order] = v1 & other.mask
                raws[f.order] = v2 & f.mask
                judge_case(dbx, dec, d, f"{f.id}:indirect_table_entry", dbx.pack(d, raws), nb, acc)
                acc.count("lookup_table_entries_audited")
            continue
        for v in values[:4000]:
            raws = dict(base)
            raws[f.order] = v
            judge_case(dbx, dec, d, f"{f.id}:lookup_table_entry", dbx.pack(d, raws), nb, acc)
            acc.count("lookup_table_entries_audited")
        acc.cover("lookup_tables_audited", key[1])


def lookup_audit_variable(dbx, dec, d, rng, acc, audited):
    """Lookup tables that only variable-layout definitions use: the field position is taken from a concrete
    generated payload (reference unpack), then every table entry is written there."""
    base = next(iter(variable_cases(dbx, d, rng, 1)), None)
    if base is None:
        return
    _, payload, nb, texts = base
    for e in dbx.unpack(d, payload):
        f = e["field"]
        if f.bits is None or f.match is not None or e["kind"] not in ("lookup", "bitlookup"):
            continue
        if f.ftype == "LOOKUP":
            key, values = ("L", f.lookup, f.bits), [v for v in dbx.lookups[f.lookup] if 0 <= v <= f.mask]
        else:
            key, values = ("B", f.bitlookup, f.bits), [1 << b for b in dbx.bitlookups[f.bitlookup] if b < f.bits]
        if key in audited:
            continue
        audited.add(key)
        at = e["bit_at"]
        for v in values[:4000]:
            p2 = (payload & ~(f.mask << at)) | (v << at)
            judge_case(dbx, dec, d, f"{f.id}:lookup_table_entry", p2, max(nb, (p2.bit_length() + 7) // 8), acc, texts)
            acc.count("lookup_table_entries_audited")
        acc.cover("lookup_tables_audited", key[1])


def exhaustive_small_fields(dbx, dec, d, rng, acc):
    """thorough: every raw value of every field <= 12 bits (others at a fixed in-range base)."""
    fields = [f for f in d.fields if f.off is not None and f.bits is not None and f.bits <= 12 and f.match is None]
    if not fields:
        return
    base = gen.base_raws(d, rng, dbx)
    nb = (d.total_bits() + 7) // 8 if d.length is None else d.length
    for f in fields:
        for u in range(1 << f.bits):
            raws = dict(base)
            raws[f.order] = u
            judge_case(dbx, dec, d, f"{f.id}:exhaustive", dbx.pack(d, raws), nb, acc)
        acc.count("fields_swept_exhaustively")
    acc.set_exhaustive("every raw value of every field <= 12 bits", True)


def replay(w, acc):
    dbx = refdb.db()
    d = dbx.by_id[w["definition"]]
    b = bytes.fromhex(w["payload_hex"])
    judge_case(dbx, NMEA2000Decoder(), d, w.get("label", "replay"), int.from_bytes(b, "little"), len(b), acc)
