"""C16 - decoder instances are isolated and unharmed by bad input."""
from __future__ import annotations

from ..lib import NMEA2000Decoder, NMEA2000Encoder, NMEA2000Message, PhysicalQuantities
from .. import refdb, gen, wire, hist, project

ID = "C16"
LEVEL = "exploration"
RULE = ("cases = histories mixing valid frames with truncated frames (0-2 data bytes), unknown PGNs, out-of-range "
        "payloads, malformed text lines, bad checksums and wrong headers through all five entry points, on one decoder "
        "or round-robin over 2-4 live decoders and encoders; afterwards probe messages (single frame; complete fast "
        "packet with a sequence counter unused in the history) are decoded by the victim and by a reference decoder "
        "that was given only the history's accepted address claims, and compared; the same history is also replayed on "
        "fresh decoders (determinism) and per-decoder sub-histories are compared with solo runs (isolation); "
        "non-trivial = history with at least one rejected/ignored input and at least one probe compared; distinct = "
        "distinct (configuration, history)")
ASSUMPTIONS = ["address claims are the only inputs that may legitimately change later results",
               "probe fast packets use sequence counters 6/7, histories use 0..5 on the probed streams"]
REQUIRED_COUNTERS = ["probes_compared", "bad_inputs_given", "determinism_histories", "isolation_subhistories"]
SHARD_TIMEOUT = {"quick": 300, "thorough": 3000}


def shards(tier, seed):
    n = 12 if tier == "quick" else 64
    out = [{"name": f"h-{i}", "i": i, "tier": tier, "seed": seed} for i in range(n)]
    out += [{"name": f"many-streams-{i}", "many": True, "tier": tier, "seed": seed} for i in range(2 if tier == "quick" else 8)]
    out += [{"name": "threads", "threads": True, "tier": tier, "seed": seed}]
    return out


# an input = (entry point name, argument, kwargs)
def call(dec, inp):
    ep, arg, kw = inp
    if ep == "__encode__":
        # not a decoder input at all: some encoder instance in the process is handed a message (it may well refuse it)
        try:
            getattr(NMEA2000Encoder(), kw.get("how", "encode_ebyte"))(arg)
            return ("encoded",)
        except Exception as e:  # noqa: BLE001
            return ("exc", type(e).__name__)
    try:
        r = getattr(dec, ep)(arg, **kw)
        return ("msg", project.msg_proj(r)) if r is not None else ("none",)
    except Exception as e:  # noqa: BLE001
        return ("exc", type(e).__name__)


def call_raw(dec, inp):
    """Like call(), but also hands back the message object."""
    ep, arg, kw = inp
    if ep == "__encode__":
        return call(dec, inp), None
    try:
        r = getattr(dec, ep)(arg, **kw)
        return (("msg", project.msg_proj(r)) if r is not None else ("none",)), r
    except Exception as e:  # noqa: BLE001
        return ("exc", type(e).__name__), None


def ev_input(ev: hist.Ev, rng):
    fmt = rng.choice(["ebyte", "ebyte", "usb", "yd"])
    if fmt == "ebyte":
        return ("decode_tcp", ev.ebyte(), {})
    if fmt == "usb":
        return ("decode_usb", wire.usb_frame(ev.ident(), ev.data), {})
    return ("decode_yacht_devices_string", wire.yd_line(ev.ident(), ev.data).strip(), {})


def bad_inputs(pool, rng, sources):
    """Inputs that must be rejected or ignored."""
    out = []
    fast = rng.choice(pool.fasts) if pool.fasts else None
    single = rng.choice(pool.singles) if pool.singles else None
    src = rng.choice(sources)
    if fast is not None:
        dst = 255
        ident = wire.can_id(3, fast.pgn, src, dst)
        seq = rng.randrange(6)
        out += [("decode_tcp", wire.ebyte_frame(ident, b""), {}),
                ("decode_tcp", wire.ebyte_frame(ident, bytes([seq << 5])), {}),
                ("decode_tcp", wire.ebyte_frame(ident, bytes([seq << 5, rng.choice([0, 5, 40])])), {}),
                ("decode_tcp", wire.ebyte_frame(ident, bytes([(seq << 5) | 3, 1, 2])), {}),
                ("decode_usb", wire.usb_frame(ident, bytes([seq << 5])), {}),
                ("decode_yacht_devices_string", wire.yd_line(ident, bytes([(seq << 5) | 1])).strip(), {}),
                ("decode_basic_string", wire.plain_line(3, fast.pgn, src, dst, bytes([seq << 5, 30, 1, 2, 3])), {})]
    if single is not None:
        ident = wire.can_id(3, single.pgn, src, 255)
        ones = b"\xfd" * 8                      # reserved codes: out of range for most numeric fields
        out += [("decode_tcp", wire.ebyte_frame(ident, ones), {}),
                ("decode_tcp", wire.ebyte_frame(ident, b"\x01"), {}),
                ("decode_actisense_string", wire.actisense_line(3, single.pgn, src, 255, b"\xfe" * 8), {})]
    unknown_pgn = rng.choice([130999, 65534, 1, 120000])
    uid = wire.can_id(6, unknown_pgn, src, 255)
    good_usb = wire.usb_frame(uid, bytes(8))
    bad_sum = bytearray(wire.usb_frame(wire.can_id(3, (single or fast).pgn, src, 255), bytes(range(8))))
    bad_sum[19] ^= 0x55
    out += [("decode_tcp", wire.ebyte_frame(uid, bytes(range(8))), {}),
            ("decode_usb", good_usb, {}),
            ("decode_usb", bytes(bad_sum), {}),
            ("decode_usb", b"\x00\x11" + bytes(18), {}),
            ("decode_usb", good_usb[:13], {}),
            ("decode_actisense_string", "garbage", {}),
            ("decode_actisense_string", "A000001.000 09FF7", {}),
            ("decode_actisense_string", "B000001.000 09FF7 1F513 0102", {}),
            ("decode_actisense_string", "A000001.000 09FF7 1F513 ZZ", {}),
            ("decode_actisense_string", "Axx.yy 09FF7 1F513 00", {}),
            ("decode_yacht_devices_string", "", {}),
            ("decode_yacht_devices_string", "00:00:00.000 X 09F80100 00 11", {}),
            ("decode_yacht_devices_string", "00:00:00.000 R 09F80100 GG", {}),
            ("decode_yacht_devices_string", "nonsense R 09F80100 00", {}),
            ("decode_basic_string", "a,b,c", {}),
            ("decode_basic_string", "2024-01-01-00:00:00.000,3,notanumber,1,255,8,00,11,22,33,44,55,66,77", {}),
            ("decode_basic_string", "2024-01-01-00:00:00.000,3,127250,1,255,8,zz,11,22,33,44,55,66,77", {"already_combined": True})]
    rng.shuffle(out)
    return out[: rng.randint(4, len(out))]


def is_inert(inp) -> bool:
    """True for inputs that by protocol cannot legitimately change decoder state: malformed text, wrong headers,
    bad checksums, unknown PGNs, out-of-range single frames, fast-packet frames with fewer than 2 data bytes.
    A well-formed first frame of a fast-packet PGN (>= 2 data bytes) restarts that stream's reassembly by design,
    even if the message it starts is rejected later."""
    ep, arg, _ = inp
    if ep == "__encode__":
        return True
    try:
        if ep == "decode_tcp":
            n = arg[0] & 0x0F
            ident = int.from_bytes(arg[1:5], "big")
            data = arg[5:5 + n]
        elif ep == "decode_usb":
            if len(arg) != 20 or arg[:2] != b"\xaa\x55" or wire.usb_checksum(arg) != arg[19]:
                return True          # not a packet at all / fails its checksum: nothing in it may be believed
            ident = int.from_bytes(arg[5:9], "little")
            data = arg[10:10 + arg[9]]
        elif ep == "decode_yacht_devices_string":
            parts = arg.split()
            ident = int(parts[2], 16)
            data = bytes(int(x, 16) for x in parts[3:])
        elif ep == "decode_basic_string":
            parts = arg.split(",")
            pgn = int(parts[2])
            data = bytes(int(x, 16) for x in parts[6:6 + int(parts[5])])
            ident = wire.can_id(0, pgn, 0, 255)
        else:
            return True
    except Exception:  # noqa: BLE001 - unparsable: inert
        return True
    _, pgn, _, _ = wire.parse_id(ident)
    ds = refdb.db().by_pgn.get(pgn)
    if not ds or ds[0].type != "Fast":
        return True
    return len(data) < 2 or (data[0] & 0x1F) != 0


def never_matters(inp) -> bool:
    """Inputs that cannot legitimately matter in ANY decoder state, even when they are silently ignored rather than
    refused: USB packets with a wrong marker, length or checksum, and frames of PGN numbers the database does not know."""
    ep, arg, _ = inp
    try:
        if ep == "decode_usb":
            if len(arg) != 20 or arg[:2] != b"\xaa\x55" or wire.usb_checksum(arg) != arg[19]:
                return True
            ident = int.from_bytes(arg[5:9], "little")
        elif ep == "decode_tcp":
            ident = int.from_bytes(arg[1:5], "big")
        else:
            return False
    except Exception:  # noqa: BLE001
        return False
    _, pgn, _, _ = wire.parse_id(ident)
    return pgn not in refdb.db().by_pgn


def probes(pool, rng, sources):
    """-> list of (inputs, id of the definition the last input must yield)."""
    out = []
    for _ in range(3):
        if pool.singles:
            d = rng.choice(pool.singles)
            pb = pool.payload(d)
            if pb:
                out.append(([("decode_tcp", wire.ebyte_frame(wire.can_id(2, d.pgn, rng.choice(sources), 255), pb), {})], d.id))
    for seq in (6, 7):
        if pool.fasts:
            d = rng.choice(pool.fasts)
            pb = pool.payload(d)
            if pb:
                src = rng.choice(sources)
                ident = wire.can_id(5, d.pgn, src, 255)
                fmt = rng.choice(["ebyte", "usb", "yd", "plain"])
                frames = wire.fast_frames(pb, seq, 0xFF)
                if fmt == "ebyte":
                    out.append(([("decode_tcp", wire.ebyte_frame(ident, f), {}) for f in frames], d.id))
                elif fmt == "usb":
                    out.append(([("decode_usb", wire.usb_frame(ident, f), {}) for f in frames], d.id))
                elif fmt == "yd":
                    out.append(([("decode_yacht_devices_string", wire.yd_line(ident, f).strip(), {}) for f in frames], d.id))
                else:
                    out.append(([("decode_basic_string", wire.plain_line(5, d.pgn, src, 255, f), {}) for f in frames], d.id))
    # the same kind of message handed over pre-assembled (the text formats that carry whole messages)
    for d in (pool.fasts[:2] if pool.fasts else []):
        wi = whole_message_input(pool, d, rng, sources)
        if wi is not None:
            out.append(([wi], d.id))
    return out


def odd_encoder_inputs(pool, rng):
    """Messages an encoder is asked to send and refuses (or not): they concern no decoder at all."""
    out = []
    for d in rng.sample(pool.singles + pool.fasts, min(3, len(pool.singles + pool.fasts))):
        how = rng.choice(["encode_ebyte", "encode_usb", "encode_yacht_devices", "encode_actisense"])
        out.append(("__encode__", NMEA2000Message(PGN=float(d.pgn), id=d.id, priority=3, source=1, destination=255, fields=[]), {"how": how}))
        out.append(("__encode__", NMEA2000Message(PGN=str(d.pgn), id=d.id, priority=3, source=1, destination=255, fields=[]), {"how": how}))
        out.append(("__encode__", NMEA2000Message(PGN=d.pgn, id=d.id.upper(), priority=3, source=1, destination=255, fields=[]), {"how": how}))
    return out


def whole_message_input(pool, d, rng, sources):
    pb = pool.payload(d)
    if not pb:
        return None
    src = rng.choice(sources)
    if rng.random() < 0.5:
        return ("decode_actisense_string", wire.actisense_line(4, d.pgn, src, 255, pb), {})
    return ("decode_basic_string", wire.plain_line(4, d.pgn, src, 255, pb), {"already_combined": True})


UNIT_PREFS = [{"TEMPERATURE": "C", "PRESSURE": "bar", "ANGLE": "deg", "SPEED": "kts"}, {"TEMPERATURE": "f", "PRESSURE": "PSI"}, {"ANGLE": "deg"}]


def unit_prefs(k):
    return {getattr(PhysicalQuantities, q): u for q, u in UNIT_PREFS[k % len(UNIT_PREFS)].items()}


def make_config(rng):
    k = rng.randrange(8)
    if k == 0:
        return {}
    if k == 7:
        # every decoder of this configuration appends to one dump file (victim, references, the replayed copy ...)
        import os
        from .. import runner
        return {"dump_to_file": os.path.join(runner.SCRATCH, f"c16-dump-{os.getpid()}", "shared.jsonl"), "dump_pgns": rng.choice([[], [127250, "isoAddressClaim"]])}
    if k == 5:
        return {"preferred_units": unit_prefs(rng.randrange(3))}
    if k == 6:
        return {"preferred_units": unit_prefs(rng.randrange(3)), "build_network_map": True, "exclude_pgns": ["isoAddressClaim"]}
    if k == 1:
        return {"build_network_map": True}
    if k == 2:
        return {"exclude_pgns": [60928, "fusionMute"]}
    if k == 3:
        return {"exclude_manufacturer_code": ["Garmin"], "build_network_map": rng.random() < 0.5}
    return {"include_manufacturer_code": ["Raymarine", "Furuno"]}


def run_many_streams(spec, acc):
    """Rejected / ignored fast-packet fragments on a large number of distinct (PGN, source, destination) streams
    (orphan continuation frames, empty frames, abandoned first frames), then complete messages on streams the
    decoder has never seen: they must decode exactly as on a fresh decoder, however many leftovers there are."""
    dbx = refdb.db()
    rng = gen.rng_for(spec["seed"], ID, spec["name"])
    quick = spec["tier"] == "quick"
    for rep in range(6 if quick else 60):
        pool = hist.Pool(dbx, rng, n_single=3, n_fast=6)
        if not pool.fasts:
            continue
        victim, fresh = NMEA2000Decoder(), NMEA2000Decoder()
        n_streams = rng.choice([40, 70, 150, 300])
        bad = 0
        for k in range(n_streams):
            d = rng.choice(pool.fasts)
            src = k % 250
            ident = wire.can_id(3, d.pgn, src, 255)
            kind = k % 4
            if kind == 0:
                frame = bytes([(rng.randrange(6) << 5) | rng.randint(1, 5)]) + bytes(7)          # orphan continuation frame
            elif kind == 1:
                frame = b""                                                                       # no data at all
            elif kind == 2:
                frame = bytes([rng.randrange(6) << 5, 40, 1, 2, 3, 4, 5, 6])                     # first frame, never completed
            else:
                frame = bytes([rng.randrange(6) << 5])                                            # truncated first frame
            o = call(victim, ("decode_tcp", wire.ebyte_frame(ident, frame), {}))
            bad += 1
            if o[0] == "msg":
                acc.violation("fragment-produced-a-message", f"a fast-packet fragment of {len(frame)} bytes produced a message", {"frame": frame.hex()})
        acc.count("bad_inputs_given", bad)
        compared = 0
        for probe_no in range(12):
            d = rng.choice(pool.fasts)
            pb = pool.payload(d)
            if not pb:
                continue
            src = 251 + probe_no % 4                       # sources never used above
            ident = wire.can_id(5, d.pgn, src, 255)
            frames = [("decode_tcp", wire.ebyte_frame(ident, f), {}) for f in wire.fast_frames(pb, 6 + probe_no % 2, 0xFF)]
            ov = [call(victim, i) for i in frames]
            of = [call(fresh, i) for i in frames]
            acc.count("probes_compared")
            compared += 1
            if ov != of:
                acc.violation("history-changes-fast-packet-probe", f"after fragments on {n_streams} streams a complete message on a new stream decodes differently than on a fresh decoder "
                              f"({[o[0] for o in ov][-1]} vs {[o[0] for o in of][-1]})", {"streams_with_leftovers": n_streams, "probe_pgn": d.pgn, "probe_source": src})
        # neighbouring streams: a transfer left unfinished on (PGN, source, destination) and then a complete message, with the
        # SAME sequence counter, on a stream that differs in one element only (next destination, next source, source and
        # destination swapped, broadcast instead of addressed). That stream has never used any counter: the message decodes as
        # on a fresh decoder, and the unfinished transfer is still completed by its own frames afterwards.
        addressed = [d_ for d_ in dbx.defs if d_.supported and d_.fixed_layout and d_.type == "Fast" and ((d_.pgn >> 8) & 0xFF) < 240 and not d_.fallback and d_.length
                     and not any(f.offset is not None for f in d_.fields)]
        for nb in range(6 if quick else 12):
            d = rng.choice(addressed) if addressed and nb % 3 != 2 else rng.choice(pool.fasts)
            pdu1 = ((d.pgn >> 8) & 0xFF) < 240
            pb1, pb2 = pool.payload(d), pool.payload(d)
            if not pb1 or not pb2:
                continue
            s0, a0 = rng.randrange(0, 250), (rng.randrange(0, 250) if pdu1 else 255)
            q = rng.randrange(8)
            victim2, fresh2, alone = NMEA2000Decoder(), NMEA2000Decoder(), NMEA2000Decoder()
            fr1 = wire.fast_frames(pb1, q, 0xFF)
            keep = rng.randint(1, max(1, len(fr1) - 1))
            first_part = [("decode_tcp", wire.ebyte_frame(wire.can_id(3, d.pgn, s0, a0), f), {}) for f in fr1[:keep]]
            rest = [("decode_tcp", wire.ebyte_frame(wire.can_id(3, d.pgn, s0, a0), f), {}) for f in fr1[keep:]]
            for i in first_part:
                call(victim2, i)
            neigh = [(s0 ^ 1, a0), (s0 + 1, a0), ((s0 + 2) % 250, a0)]
            if pdu1:
                neigh += [(s0, a0 ^ 1), (s0, a0 + 1), (s0, (a0 + 2) % 250), (a0, s0), (s0, 255), (s0, a0 ^ 0x80)]
            for (s1, a1) in neigh:
                if (s1, a1) == (s0, a0) or s1 > 251:
                    continue
                pr = [("decode_tcp", wire.ebyte_frame(wire.can_id(3, d.pgn, s1, a1), f), {}) for f in wire.fast_frames(pb2, q, 0xFF)]
                ov = [call(victim2, i) for i in pr]
                of = [call(fresh2, i) for i in pr]
                acc.count("probes_compared")
                acc.count("neighbour_stream_probes_compared")
                acc.cover("neighbour_stream_kinds", "addressed" if pdu1 else "broadcast")
                if ov != of or ov[-1][0] != "msg":
                    acc.violation("history-changes-fast-packet-probe", f"PGN {d.pgn}: with a transfer unfinished on (source {s0}, destination {a0}) a complete message with the same "
                                  f"sequence counter on the never used stream (source {s1}, destination {a1}) gives {ov[-1][0]}, a fresh decoder gives {of[-1][0]}",
                                  {"pgn": d.pgn, "unfinished_stream": [s0, a0], "probe_stream": [s1, a1], "sequence_counter": q, "frames_of_the_unfinished_transfer": keep})
                    break
            # and the unfinished transfer itself is completed by its own remaining frames, as if nothing had happened in between
            ov = [call(victim2, i) for i in rest]
            for i in first_part:
                call(alone, i)
            oa = [call(alone, i) for i in rest]
            if rest and ov != oa:
                acc.violation("history-changes-fast-packet-probe", f"PGN {d.pgn}: a transfer on (source {s0}, destination {a0}) interrupted by complete messages on neighbouring streams "
                              f"ends in {ov[-1][0]}, uninterrupted in {oa[-1][0]}", {"pgn": d.pgn, "stream": [s0, a0], "sequence_counter": q})
        # a long message loses its tail; then only SHORT messages follow on that stream (they fit into one frame), each with the
        # next sequence counter; then a long one again - after 0 .. 9 short ones, so that its counter (the next in turn, fresh by
        # the protocol's rule) is sooner or later the one the abandoned message had. It decodes as on a fresh decoder.
        for j_short in range(10):
            s0 = rng.randrange(0, 250)
            pgn_ = 130816 if j_short % 2 else 126720
            a0 = 255 if pgn_ == 130816 else rng.randrange(0, 250)
            q = rng.randrange(8)
            head_ = bytes([0xFE, 0x07])                   # manufacturer 2046 (nobody's), industry 0: the catch-all definition
            victim3 = NMEA2000Decoder()
            ident = wire.can_id(3, pgn_, s0, a0)
            long1 = head_ + bytes(rng.randrange(1, 250) for _ in range(rng.choice([12, 25, 40])))
            fr1 = wire.fast_frames(long1, q, 0xFF)
            for f in fr1[:rng.randint(1, len(fr1) - 1)]:
                call(victim3, ("decode_tcp", wire.ebyte_frame(ident, f), {}))
            ok_ = True
            for k_ in range(j_short):
                short_ = head_ + bytes(rng.randrange(1, 250) for _ in range(rng.randint(1, 4)))
                pr = [("decode_tcp", wire.ebyte_frame(ident, f), {}) for f in wire.fast_frames(short_, (q + 1 + k_) % 8, 0xFF)]
                fresh3 = NMEA2000Decoder()
                ov, of = [call(victim3, i) for i in pr], [call(fresh3, i) for i in pr]
                acc.count("probes_compared")
                if ov != of:
                    acc.violation("history-changes-fast-packet-probe", f"PGN {pgn_}: short message {k_ + 1} after an abandoned long one decodes differently than on a fresh decoder "
                                  f"({ov[-1][0]} vs {of[-1][0]})", {"pgn": pgn_, "stream": [s0, a0], "abandoned_counter": q, "short_messages_before": k_})
                    ok_ = False
                    break
            if not ok_:
                continue
            long2 = head_ + bytes(rng.randrange(1, 250) for _ in range(rng.choice([12, 25, 40])))
            q2 = (q + 1 + j_short) % 8
            pr = [("decode_tcp", wire.ebyte_frame(ident, f), {}) for f in wire.fast_frames(long2, q2, 0xFF)]
            fresh3 = NMEA2000Decoder()
            ov, of = [call(victim3, i) for i in pr], [call(fresh3, i) for i in pr]
            acc.count("probes_compared")
            acc.count("long_message_after_abandoned_one_and_short_ones_compared")
            acc.cover("short_messages_between_abandoned_and_probe", j_short)
            if ov != of or of[-1][0] != "msg":
                acc.violation("history-changes-fast-packet-probe", f"PGN {pgn_}: a long message abandoned with counter {q}, then {j_short} short messages, then a complete long "
                              f"message with the next counter {q2}: {ov[-1][0]} vs {of[-1][0]} on a fresh decoder (or another content)",
                              {"pgn": pgn_, "stream": [s0, a0], "abandoned_counter": q, "short_messages_between": j_short, "probe_counter": q2})
        acc.case(("many-streams", rep, n_streams) if compared else None)
        acc.count("determinism_histories")
        acc.count("isolation_subhistories")
        acc.cover("leftover_stream_counts", n_streams)


def run_threads(spec, acc):
    """Instances are independent also when they work at the same time: four threads, each with a decoder (and histories) of its
    own, nothing shared by the application. What every decoder returns for its history is what a decoder returns for that
    history when it is alone in the process (computed first, single-threaded). Units, filters and the network map are on in
    some of the threads and off in others."""
    import sys
    import threading
    dbx = refdb.db()
    rng = gen.rng_for(spec["seed"], ID, spec["name"])
    quick = spec["tier"] == "quick"
    n_threads = 4
    cfgs = [{}, {"preferred_units": unit_prefs(0)}, {"build_network_map": True}, {"preferred_units": unit_prefs(1), "exclude_pgns": [130999], "build_network_map": True}]
    plans = []
    for t in range(n_threads):
        hs = []
        for _ in range(6 if quick else 40):
            pool = hist.Pool(dbx, rng, n_single=5, n_fast=4)
            sources = hist.pick_sources(rng, 3)
            claims = {s_: [hist.pick_name(rng)] for s_ in sources}
            events = hist.build_history(pool, rng, sources, 60 if quick else 120, claims, p_claim=0.1)
            inputs = [ev_input(ev, rng) for ev in events]
            alone = NMEA2000Decoder(**cfgs[t])
            alone._vf_plain = True
            hs.append((inputs, [call(alone, i) for i in inputs]))
        plans.append(hs)
    wrong, errors = [], []
    start = threading.Barrier(n_threads)

    def work(t):
        try:
            start.wait()
            for rnd in range(3 if quick else 10):
                for inputs, want in plans[t]:
                    dec = NMEA2000Decoder(**cfgs[t])
                    dec._vf_plain = True
                    got = [call(dec, i) for i in inputs]
                    if got != want:
                        pos = next(k for k, (a, b) in enumerate(zip(got, want)) if a != b)
                        wrong.append((t, pos, repr(got[pos])[:300], repr(want[pos])[:300]))
                        return
        except Exception as e:  # noqa: BLE001
            errors.append(f"{type(e).__name__}: {e}")
    old = sys.getswitchinterval()
    sys.setswitchinterval(1e-6)
    try:
        ts = [threading.Thread(target=work, args=(t,)) for t in range(n_threads)]
        for t_ in ts:
            t_.start()
        for t_ in ts:
            t_.join(900)
    finally:
        sys.setswitchinterval(old)
    n = sum(len(i) for hs in plans for i, _ in hs) * (3 if quick else 10)
    acc.count("inputs_decoded_in_concurrent_threads", n)
    acc.count("determinism_histories", sum(len(hs) for hs in plans))
    acc.count("isolation_subhistories", sum(len(hs) for hs in plans))
    acc.count("probes_compared", n)
    acc.count("bad_inputs_given", 0)
    acc.case(("threads", n_threads, n))
    acc.sample({"threads": n_threads, "configurations": [repr(c) for c in cfgs], "inputs": n})
    if errors:
        acc.violation("decode-raised-in-concurrent-threads", f"decoders of their own in {n_threads} threads: {errors[0]}", {"errors": errors[:5]})
    if wrong:
        t, pos, got, want = wrong[0]
        acc.violation("same-history-different-results", f"thread {t} (config {cfgs[t]}): input {pos} of a history gives {got[:120]} while other threads decode on decoders of "
                      f"their own, {want[:120]} when the decoder is alone in the process", {"thread": t, "config": repr(cfgs[t]), "position": pos, "got": got, "alone": want})


def run_shard(spec, acc):
    if spec.get("many"):
        return run_many_streams(spec, acc)
    if spec.get("threads"):
        return run_threads(spec, acc)
    import os
    import shutil
    from .. import runner
    try:
        return run_histories(spec, acc)
    finally:
        shutil.rmtree(os.path.join(runner.SCRATCH, f"c16-dump-{os.getpid()}"), ignore_errors=True)


def run_histories(spec, acc):
    dbx = refdb.db()
    rng = gen.rng_for(spec["seed"], ID, spec["name"])
    quick = spec["tier"] == "quick"
    sources = [5, 6, 7]
    for c in range(100 if quick else 600):
        pool = hist.Pool(dbx, rng, n_single=5, n_fast=4)
        cfg = make_config(rng)
        sources = hist.pick_sources(rng, 3)
        claims = {s: [hist.claim_name(hist.pick_unique_number(rng), rng.choice([1851, 1855, 229, 137])), hist.pick_name(rng)] for s in sources}
        events = hist.build_history(pool, rng, sources, 40 if quick else 120, claims, p_claim=0.1)
        # sequence counters of the history: within 0..5 (6/7 are reserved for the probes) and different from the
        # previous message of the same stream
        last_seq, msg_seq = {}, {}
        for ev in events:
            if ev.tag == "fast":
                key = (ev.pgn, ev.src, ev.dst)
                if ev.msg_no not in msg_seq:
                    prev = last_seq.get(key, rng.randrange(6))
                    msg_seq[ev.msg_no] = last_seq[key] = (prev + rng.randint(1, 5)) % 6
                b0 = ev.data[0]
                ev.data = bytes([msg_seq[ev.msg_no] << 5 | (b0 & 0x1F)]) + ev.data[1:]
        inputs = []
        for ev in events:
            if ev.tag == "fast" and rng.random() < 0.15:
                # line noise: a damaged copy (checksum no longer fits) of the very frame that is about to arrive - same stream,
                # same sequence counter, a frame counter the decoder is still waiting for
                dmg = bytearray(wire.usb_frame(ev.ident(), ev.data))
                if rng.random() < 0.5:
                    dmg[19] ^= rng.randrange(1, 256)
                else:
                    dmg[rng.randrange(11, 18)] ^= rng.randrange(1, 256)
                inputs.append(("bad", None, ("decode_usb", bytes(dmg), {})))
            inputs.append(("ev", ev, ev_input(ev, rng)))
            if pool.singles and rng.random() < 0.12:
                # a valid message with nothing in it: every field 'not available' (a sensor that has just been switched on). It is
                # history like everything else: what comes later decodes as if it had not been there
                d_na = rng.choice(pool.singles)
                nb_na = d_na.length or 8
                na_ = (1 << (8 * nb_na)) - 1
                for f_ in d_na.match_fields:
                    na_ = (na_ & ~(f_.mask << f_.off)) | (f_.match << f_.off)
                if dbx.select(d_na.pgn, na_) is d_na and nb_na <= 8:
                    inputs.append(("na", None, ("decode_tcp", wire.ebyte_frame(wire.can_id(2, d_na.pgn, rng.choice(sources), 255), na_.to_bytes(nb_na, "little")), {})))
                    acc.count("messages_with_every_field_not_available_in_histories")
            if rng.random() < 0.25:
                for b in bad_inputs(pool, rng, sources)[:rng.randint(1, 4)]:
                    inputs.append(("bad", None, b))
            if rng.random() < 0.06:
                for e_ in odd_encoder_inputs(pool, rng)[:rng.randint(1, 4)]:
                    inputs.append(("bad", None, e_))
            if pool.fasts and rng.random() < 0.08:
                # a fast-packet PGN arriving pre-assembled through a text format, on the same decoder
                wi = whole_message_input(pool, rng.choice(pool.fasts), rng, sources)
                if wi is not None:
                    inputs.append(("whole", None, wi))
        n_bad = sum(1 for t, _, _ in inputs if t == "bad")
        acc.count("bad_inputs_given", n_bad)
        w = {"config": repr(cfg), "inputs": [[t, i[0], (i[1].hex() if isinstance(i[1], (bytes, bytearray)) else i[1])] for t, _, i in inputs][-60:]}

        # --- A: victim vs claims-only reference, then probes -------------------------
        victim = NMEA2000Decoder(**cfg)
        ref = NMEA2000Decoder(**cfg)
        outcomes = []
        last_claim = {}
        for t, ev, inp in inputs:
            o = call(victim, inp)
            outcomes.append(o)
            if t == "ev" and ev.tag == "claim" and o[0] != "exc":
                last_claim.pop(ev.src, None)
                last_claim[ev.src] = inp
        # the reference has seen nothing but the most recent claim of every source, once (repeated and superseded
        # claims are history like everything else)
        compared = 0
        truth_applies = not any(cfg.get(k_) for k_ in ("exclude_manufacturer_code", "include_manufacturer_code", "exclude_pgns", "include_pgns", "build_network_map"))
        for pr, want_id in probes(pool, rng, sources):
            # a reference of its own for every probe: it has seen the claims and nothing else, not even earlier probes
            ref = NMEA2000Decoder(**cfg)
            for inp in last_claim.values():
                call(ref, inp)
            ov = [call(victim, i) for i in pr]
            orf = [call(ref, i) for i in pr]
            acc.count("probes_compared")
            compared += 1
            # the reference is the library too (and shares the process with everything that happened): where nothing in
            # the configuration can withhold the probe, it is itself held against what was sent
            if truth_applies:
                acc.count("probe_references_checked_against_ground_truth")
                last = orf[-1]
                if last[0] != "msg" or last[1][1] != want_id:
                    acc.violation("fresh-decoder-fails-on-a-valid-probe", f"config {cfg}: a new decoder that saw only address claims returns {last[0]} "
                                  f"{(last[1][1] if last[0] == 'msg' else '')} for a valid {want_id} message (something earlier in this process changed it)",
                                  dict(w, probe=[(i[1].hex() if isinstance(i[1], (bytes, bytearray)) else i[1]) for i in pr]))
            if ov != orf:
                kind = "fast-packet-probe" if len(pr) > 1 else "single-frame-probe"
                acc.violation(f"history-changes-{kind}", f"config {cfg}: probe decodes differently after the history than on a decoder that only saw its claims",
                              dict(w, probe=[(i[1].hex() if isinstance(i[1], (bytes, bytearray)) else i[1]) for i in pr], victim=repr(ov)[:400], reference=repr(orf)[:400]))

        # an address claim is a single-frame message too: repeating a source's current claim must decode exactly as
        # the same claim decodes on a decoder without any history
        for inp in list(last_claim.values())[:3]:
            ov = call(victim, inp)
            of = call(NMEA2000Decoder(**cfg), inp)
            acc.count("claim_probes_compared")
            if ov != of:
                acc.violation("history-changes-claim-probe", f"config {cfg}: a repeated address claim decodes differently after the history than on a fresh decoder",
                              dict(w, probe=inp[1].hex() if isinstance(inp[1], (bytes, bytearray)) else inp[1], victim=repr(ov)[:400], fresh=repr(of)[:400]))

        # --- A2: inputs rejected with an error must not matter at all ---------------------------------
        # a decoder that is given the same history WITHOUT the inputs the victim rejected with an error must
        # return the same thing for every remaining input (in-progress fast packets included)
        clean = NMEA2000Decoder(**cfg)
        removed = [t == "bad" and ((o[0] == "exc" and is_inert(inp)) or (o[0] == "none" and never_matters(inp))) for (t, ev, inp), o in zip(inputs, outcomes)]
        for pos, ((t, ev, inp), o) in enumerate(zip(inputs, outcomes)):
            if removed[pos]:
                continue
            oc = call(clean, inp)
            acc.count("positions_compared_without_rejected_inputs")
            if pos == 0:
                acc.count("rejected_inputs_removed", sum(removed))
            if oc != o:
                acc.violation("rejected-input-changes-later-result",
                              f"config {cfg}: input {pos} gives {o[0]} after a history with rejected inputs but {oc[0]} when those inputs are left out",
                              dict(w, position=pos, with_rejected=repr(o)[:300], without=repr(oc)[:300],
                                   all_inputs=[[i[0], (i[1].hex() if isinstance(i[1], (bytes, bytearray)) else i[1]), i[2], isinstance(i[1], (bytes, bytearray))] for _, _, i in inputs[:pos + 1]],
                                   last_rejected=[[i[0], (i[1].hex() if isinstance(i[1], (bytes, bytearray)) else i[1])] for k_, ((_, _, i), oo) in enumerate(list(zip(inputs, outcomes))[:pos]) if removed[k_]][-3:]))
                break

        # --- B: determinism ------------------------------------------------------------
        again = NMEA2000Decoder(**cfg)
        outcomes2 = [call(again, inp) for _, _, inp in inputs]
        acc.count("determinism_histories")
        if outcomes2 != outcomes:
            pos = next(i for i, (a, b) in enumerate(zip(outcomes, outcomes2)) if a != b)
            acc.violation("same-history-different-results", f"config {cfg}: replaying the history on a fresh decoder differs at input {pos}",
                          dict(w, position=pos, first=repr(outcomes[pos])[:300], second=repr(outcomes2[pos])[:300]))

        # --- C: several live instances, round-robin ---------------------------------------
        k = rng.randint(2, 4)
        decs = [NMEA2000Decoder(**cfg) for _ in range(k)]
        encs = [NMEA2000Encoder() for _ in range(k)]
        sub = [[] for _ in range(k)]
        got = [[] for _ in range(k)]
        enc_out = [[] for _ in range(k)]
        for n, (_, _, inp) in enumerate(inputs):
            j = rng.randrange(k)
            sub[j].append(inp)
            o = call(decs[j], inp)
            got[j].append(o)
            # keep the encoders busy with what was just decoded
            if o[0] == "msg":
                # the neighbour sees this input too; whatever it does with it is part of the neighbour's own history
                nb_ = (j + 1) % k
                o2, m = call_raw(decs[nb_], inp)
                sub[nb_].append(inp)
                got[nb_].append(o2)
                if m is not None:
                    try:
                        enc_out[j].append(encs[j].encode_ebyte(m))
                    except Exception:  # noqa: BLE001
                        enc_out[j].append("exc")
        for j in range(k):
            solo = NMEA2000Decoder(**cfg)
            want = [call(solo, inp) for inp in sub[j]]
            acc.count("isolation_subhistories")
            if want != got[j]:
                pos = next(i for i, (a, b) in enumerate(zip(want, got[j])) if a != b)
                acc.violation("other-instances-change-results", f"config {cfg}: decoder {j} of {k} differs from a solo decoder at its input {pos}",
                              dict(w, position=pos, solo=repr(want[pos])[:300], shared=repr(got[j][pos])[:300]))
        # --- C2: differently configured instances alive together, each given every input (so the very same
        # payloads pass through all of them, and twice); every one must return what a decoder of its own
        # configuration returned for that input sequence when it ran alone beforehand, and again afterwards
        cfgs = [{}, {"preferred_units": unit_prefs(c)}, {"preferred_units": unit_prefs(c + 1), "build_network_map": c % 2 == 0}, dict(cfg)]
        twice = [inp for _, _, inp in inputs] * 2
        before = [[call(d0, inp) for inp in twice] for d0 in (NMEA2000Decoder(**cf) for cf in cfgs)]
        together = [NMEA2000Decoder(**cf) for cf in cfgs]
        mixed = [[] for _ in cfgs]
        for inp in twice:
            order = list(range(len(cfgs)))
            rng.shuffle(order)
            for j in order:
                mixed[j].append(call(together[j], inp))
        after = [[call(d0, inp) for inp in twice] for d0 in (NMEA2000Decoder(**cf) for cf in cfgs)]
        for j, cf in enumerate(cfgs):
            acc.count("mixed_configuration_runs")
            for label, other in (("alongside differently configured decoders", mixed[j]), ("on a fresh decoder created after them", after[j])):
                if other != before[j]:
                    pos = next(i for i, (a, b) in enumerate(zip(before[j], other)) if a != b)
                    acc.violation("differently-configured-instances-change-results",
                                  f"config {cf}: input {pos} of the doubled history decodes differently {label} than on a decoder of the same configuration that ran alone before",
                                  dict(w, config=repr(cf), position=pos, alone_before=repr(before[j][pos])[:300], other=repr(other[pos])[:300]))
                    break
        acc.case((repr(cfg), tuple((i[0], i[1]) for _, _, i in inputs)) if (n_bad and compared) else None)
        acc.cover("configs", repr(sorted(cfg)))
        if c % 11 == 0:
            acc.sample({"config": repr(cfg), "inputs": len(inputs), "bad_inputs": n_bad, "probes": compared,
                        "outcome_kinds": {k2: sum(1 for o in outcomes if o[0] == k2) for k2 in ("msg", "none", "exc")}})

    # --- D: argument lists shared between constructions; encoder counters per instance --------------
    for rep in range(6 if quick else 60):
        shared = [[60928, "isoAddressClaim", 127250], [60928, 127250], ["isoAddressClaim"], [127250, 60928, 130306]][rep % 4]
        snapshot = list(shared)
        d1 = NMEA2000Decoder(exclude_pgns=shared)
        d2 = NMEA2000Decoder(exclude_pgns=shared)
        acc.case(("shared-list", rep))
        if shared != snapshot:
            acc.violation("constructor-mutates-caller-list", f"exclude_pgns list changed from {snapshot} to {shared}", {"list": repr(shared)})
        claim = ("decode_tcp", hist.claim_event(9, hist.claim_name(99, 1851)).ebyte(), {})
        if call(d1, claim) != call(d2, claim):
            acc.violation("equal-configuration-different-behaviour", "two decoders built from the same list object behave differently", {})
        a, b = NMEA2000Decoder(), NMEA2000Decoder(exclude_pgns=[127250])
        c2 = NMEA2000Decoder()
        probe = ("decode_actisense_string", "A000001.000 09FF7 1F112 00ffff7fff7ffd", {})
        if call(a, probe) != call(c2, probe):
            acc.violation("default-arguments-shared-between-instances", "a decoder created after one with filters differs from one created before", {})
        # encoders: the sequence counter is per instance
        pool = hist.Pool(dbx, rng, n_single=0, n_fast=4, only_encodable=True)
        src_dec = NMEA2000Decoder()
        msgs = []
        for d in pool.fasts:
            pb = pool.payload(d)
            if pb:
                try:
                    m = src_dec.decode_basic_string(wire.plain_line(3, d.pgn, 1, 255, pb), already_combined=True)
                    NMEA2000Encoder().encode_ebyte(m)
                    msgs.append(m)
                except Exception:  # noqa: BLE001
                    pass
        if msgs:
            solo = NMEA2000Encoder()
            want = [solo.encode_ebyte(m) for m in msgs * 3]
            e1, e2 = NMEA2000Encoder(), NMEA2000Encoder()
            got = []
            for m in msgs * 3:
                e2.encode_usb(m)
                got.append(e1.encode_ebyte(m))
                e2.encode_yacht_devices(m)
            acc.count("isolation_subhistories")
            if got != want:
                acc.violation("encoder-instances-share-state", "frames of an encoder change when another encoder is used in between", {})


def replay(w, acc):
    acc.note("replay: witness lists configuration and the last inputs; re-run ./check C16")
