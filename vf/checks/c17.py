"""C17 - identity hash depends exactly on message kind and primary-key fields."""
from __future__ import annotations

import json
import os
import subprocess
import sys

from ..lib import NMEA2000Decoder, PhysicalQuantities, REPO
from .. import refdb, gen, wire, hist

ID = "C17"
LEVEL = "exploration"
RULE = ("cases = decoded messages of every supported definition with network mapping on (sources pre-claimed): payload "
        "families that agree on all primary-key fields but differ elsewhere, that differ in exactly one key field, "
        "and the same payload under other source/destination/priority, unit preferences, decoder instances and a second "
        "process with another PYTHONHASHSEED; the oracle groups observed hashes by (definition id, key raw bits taken "
        "from canboat.json) and requires the relation to be a bijection, plus hash None with mapping off; non-trivial "
        "= a message whose hash entered the bijection check; distinct = distinct (definition, payload, addressing, "
        "configuration)")
ASSUMPTIONS = ["primary-key flags and raw bits from canboat.json (vf.refdb), not from the library's own flag", "MD5 collisions are not expected on the sampled keys"]
REQUIRED_COUNTERS = ["hashes_grouped", "equal_key_pairs", "different_key_pairs", "cross_process_hashes_compared", "mapping_off_checked"]
SHARD_TIMEOUT = {"quick": 300, "thorough": 3000}

CLAIM = hist.claim_name(4711, 1851)


def shards(tier, seed):
    n = 12 if tier == "quick" else 48
    out = [{"name": f"defs-{i}of{n}", "i": i, "n": n, "tier": tier, "seed": seed} for i in range(n)]
    # what a gateway client delivers is a returned message too: hashes (and their absence) over the whole life of a client,
    # a lost and re-established connection included
    out += [{"name": f"client-{k}", "client": k, "tier": tier, "seed": seed} for k in ("ebyte", "yd", "waveshare", "actisense")]
    # decoders of their own in several threads of one process (an application with one thread per gateway)
    out += [{"name": "threads", "threads": True, "tier": tier, "seed": seed}]
    return out


def claimed_decoder(sources, **kw):
    dec = NMEA2000Decoder(build_network_map=True, **kw)
    for s in sources:
        dec.decode_basic_string(wire.plain_line(6, 60928, s, 255, CLAIM.to_bytes(8, "little")), already_combined=True)
    return dec


def key_of(dbx, d, payload):
    """(definition id, key raw bits) from the database view of the payload."""
    exp = dbx.unpack(d, payload)
    parts = []
    for e in exp:
        f = e["field"]
        if not f.pk:
            continue
        if e["kind"] == "str":
            if e.get("undecodable"):
                return None          # text that is not valid in its announced encoding: the key has no database value
            parts.append(("s", e["value"]))
        elif "raw_int" in e:
            parts.append(("i", e["raw_int"]))
        else:
            return None
    return (d.id, tuple(parts))


CHILD = r"""
import sys, json, os
sys.path.insert(0, sys.argv[1]); sys.path.insert(0, sys.argv[2])
import logging; logging.disable(logging.CRITICAL)
if os.environ.get("VERIF_PHANTOM_MODULES") == "1":
    # This process pretends that every optional third-party module the LIBRARY ITSELF tries to import is installed:
    # an import that would fail, issued from a file of the nmea2000 package, gets a stand-in module whose every
    # attribute is a function returning a constant string. A library that behaves the same with and without its
    # optional accelerators never notices (the pinned tree imports nothing optional).
    import importlib.abc, importlib.machinery, types
    PHANTOMS = []
    class _Loader(importlib.abc.Loader):
        def create_module(self, spec):
            m = types.ModuleType(spec.name)
            m.__getattr__ = lambda name, _n=spec.name: (lambda *a, **k: f"phantom:{_n}.{name}")
            m.__path__ = []
            return m
        def exec_module(self, module):
            pass
    class _Finder(importlib.abc.MetaPathFinder):
        def find_spec(self, name, path=None, target=None):
            f = sys._getframe(1)
            while f is not None and "importlib" in f.f_code.co_filename:
                f = f.f_back
            fn = f.f_code.co_filename if f is not None else ""
            if os.sep + "nmea2000" + os.sep in fn and fn.startswith(os.path.realpath(sys.argv[1])):
                PHANTOMS.append(name)
                return importlib.machinery.ModuleSpec(name, _Loader(), is_package=True)
            return None
    sys.meta_path.append(_Finder())
from nmea2000.decoder import NMEA2000Decoder
from vf import wire
from vf.checks.c17 import claimed_decoder
dec = claimed_decoder([1, 2, 77])
out = []
for line in sys.stdin:
    pgn, src, hexp = json.loads(line)
    try:
        m = dec.decode_basic_string(wire.plain_line(3, pgn, src, 255, bytes.fromhex(hexp)), already_combined=True)
        out.append(m.hash if m is not None else None)
    except Exception as e:
        out.append("EXC")
print(json.dumps(out))
"""


def run_client(spec, acc):
    """Clients with network mapping on / off; claims and data on the first connection, the link is lost, the same data
    (with or without fresh claims) on the connection the client opens next."""
    import asyncio
    from .. import simgw, project
    from .c12 import packetise
    dbx = refdb.db()
    rng = gen.rng_for(spec["seed"], ID, spec["name"])
    kind = spec["client"]
    quick = spec["tier"] == "quick"
    sources = [10, 20, 30]
    for rep in range(10 if quick else 120):
        pool = hist.Pool(dbx, rng, n_single=6, n_fast=0 if kind == "actisense" else 2)
        mapping = rep % 3 != 2
        settings = {"build_network_map": True} if mapping else ({} if rep % 2 else {"build_network_map": False})
        if rep % 4 == 1:
            settings["preferred_units"] = {PhysicalQuantities.TEMPERATURE: "C", PhysicalQuantities.ANGLE: "deg"}
        reclaim = rep % 2 == 0
        names = {s_: hist.claim_name(rng.randrange((1 << 21) - 3), rng.choice([1851, 1855, 229, 137])) for s_ in sources}

        def pk(ev):
            if kind == "actisense":
                return (wire.actisense_line(ev.prio, ev.pgn, ev.src, 255, ev.data) + "\r\n").encode()
            return packetise(kind, ev, rng)
        claims = [pk(hist.claim_event(s_, names[s_])) for s_ in sources]
        data, keys = [], []
        for _ in range(8):
            d = rng.choice(pool.singles)
            pb = pool.payload(d)
            if pb is None:
                continue
            k_ = key_of(dbx, d, int.from_bytes(pb, "little"))
            src = rng.choice(sources)
            data.append(pk(hist.Ev(rng.randrange(8), d.pgn, src, 255, pb, "single", definition=d.id)))
            keys.append((d.id, src, k_))
        if not data:
            continue
        n_sessions = 2 + (rep % 5 == 0)

        async def scenario(sim):
            sim.spawn("connect")
            await asyncio.sleep(0.05)
            for c_no in range(n_sessions):
                if len(sim.conns) <= c_no:
                    return
                conn = sim.conns[c_no]
                conn.feed(b"".join((claims if (c_no == 0 or reclaim) else []) + data))
                await asyncio.sleep(0.5)
                if c_no == n_sessions - 1:
                    break
                if kind == "waveshare" or rep % 2:
                    conn.reset(simgw.link_loss(kind))
                else:
                    conn.feed_eof()
                for _ in range(6000):
                    if len(sim.conns) > c_no + 1 and sim.client.state.name == "CONNECTED":
                        break
                    await asyncio.sleep(0.01)
                await asyncio.sleep(0.05)
            await asyncio.sleep(1.0)
            await sim.close_guarded()
        sim, stats = simgw.run_session(kind, scenario, client_kwargs=settings)
        acc.count("client_sessions_across_a_reconnect")
        if stats["error"] or sim is None:
            acc.inconclusive_because(f"simulator: {stats['error']}")
            continue
        if len(sim.conns) < n_sessions:
            acc.count("second_connection_not_opened")
            continue
        got = [m for m in sim.received if m.PGN != 60928]
        acc.case((kind, repr(sorted(settings)), reclaim, tuple(data)))
        w = {"client": kind, "settings": repr(settings), "connections": len(sim.conns), "claims_repeated_on_later_connections": reclaim,
             "delivered": len(got), "data_messages_sent_per_connection": len(data)}
        if len(got) != len(data) * n_sessions:
            acc.count("client_sessions_with_another_number_of_deliveries")      # C11 / C12 judge what is delivered; here: the hashes of what is
        first_hash = {}
        for n_, m in enumerate(got):
            acc.count("client_delivered_hashes_checked")
            if mapping:
                acc.count("mapping_on_checked")
                if m.hash is None:
                    acc.violation("hash-missing-with-mapping-on", f"{kind} client created with network mapping on: delivered message {n_ + 1} of {len(got)} ({m.id}, "
                                  f"{len(sim.conns)} connections in its life) has no hash", dict(w, position=n_ + 1, id=m.id))
                    break
                fk = (m.id, m.source, tuple((f.id, repr(f.raw_value)) for f in m.fields))
                h0 = first_hash.setdefault(fk, m.hash)
                acc.count("equal_key_pairs")
                if h0 != m.hash:
                    acc.violation("equal-key-different-hash", f"{kind} client: the same {m.id} message from source {m.source} has hash {h0} on one connection and {m.hash} on a later one",
                                  dict(w, id=m.id))
                    break
            else:
                acc.count("mapping_off_checked")
                if m.hash is not None:
                    acc.violation("hash-set-with-mapping-off", f"{kind} client created without network mapping delivered a {m.id} message with hash {m.hash}", dict(w, id=m.id))
                    break


def run_threads(spec, acc):
    """The hash is a function of (definition, key values): it is the same whichever decoder computes it, also when several
    decoders - one per thread, nothing shared by the application - work at the same time. The expected hashes are computed
    first, single-threaded; then every thread decodes the same lines on its own decoder while the interpreter switches
    threads as often as it can."""
    import sys
    import threading
    dbx = refdb.db()
    rng = gen.rng_for(spec["seed"], ID, spec["name"])
    quick = spec["tier"] == "quick"
    defs = [d for d in dbx.defs if d.supported and d.fixed_layout and any(f.pk for f in d.fields) and (d.length or 0) and d.type in ("Single", "Fast")]
    lines = []
    ref = claimed_decoder([1, 2, 77])
    ref._vf_plain = True
    for d in rng.sample(defs, min(len(defs), 60 if quick else 300)):
        for _ in range(3):
            p = dbx.pack(d, gen.base_raws(d, rng, dbx))
            if dbx.select(d.pgn, p) is not d:
                continue
            line = wire.plain_line(3, d.pgn, rng.choice([1, 2, 77]), 255, p.to_bytes(d.length, "little"))
            try:
                m = ref.decode_basic_string(line, already_combined=True)
            except Exception:  # noqa: BLE001
                continue
            if m is not None and m.hash is not None:
                lines.append((line, m.hash, d.id))
    if len(lines) < 20:
        acc.inconclusive_because("too few lines with a hash for the thread workload")
        return
    n_threads = 4
    rounds = 40 if quick else 400
    wrong, errors = [], []
    start = threading.Barrier(n_threads)

    def work(tid):
        try:
            dec = claimed_decoder([1, 2, 77])
            dec._vf_plain = True
            order = list(range(len(lines)))
            random_ = gen.rng_for(spec["seed"], ID, "thread", tid)
            start.wait()
            for r_ in range(rounds):
                random_.shuffle(order)
                for i in order:
                    line, want, did = lines[i]
                    m = dec.decode_basic_string(line, already_combined=True)
                    if m is None or m.hash != want:
                        wrong.append((tid, did, want, None if m is None else m.hash))
                        if len(wrong) > 20:
                            return
        except Exception as e:  # noqa: BLE001
            errors.append(f"{type(e).__name__}: {e}")
    old = sys.getswitchinterval()
    sys.setswitchinterval(1e-6)
    try:
        ts = [threading.Thread(target=work, args=(t,)) for t in range(n_threads)]
        for t in ts:
            t.start()
        for t in ts:
            t.join(600)
    finally:
        sys.setswitchinterval(old)
    n = n_threads * rounds * len(lines)
    acc.count("hashes_computed_in_concurrent_threads", n)
    acc.count("equal_key_pairs", n)
    acc.count("mapping_on_checked", n)
    acc.case(("threads", n_threads, len(lines), rounds))
    acc.sample({"threads": n_threads, "lines": len(lines), "rounds_per_thread": rounds, "switch_interval": 1e-6})
    if errors:
        acc.violation("decode-raised-in-concurrent-threads", f"decoders of their own in {n_threads} threads: {errors[0]}", {"errors": errors[:5]})
    if wrong:
        tid, did, want, got = wrong[0]
        acc.violation("equal-key-different-hash", f"{did}: hash {want} single-threaded, {got} on the decoder of thread {tid} while {n_threads - 1} other threads were decoding "
                      f"on decoders of their own", {"definition": did, "expected": want, "got": got, "threads": n_threads, "wrong_results": len(wrong)})


def run_shard(spec, acc):
    if spec.get("client"):
        return run_client(spec, acc)
    if spec.get("threads"):
        return run_threads(spec, acc)
    dbx = refdb.db()
    rng = gen.rng_for(spec["seed"], ID, spec["name"])
    quick = spec["tier"] == "quick"
    defs = [d for d in dbx.defs if d.supported and d.fixed_layout]
    # all definitions of a PGN number in the same shard: sibling definitions must meet on one long-lived decoder
    pgn_order = sorted({d.pgn for d in defs})
    mine = {p for k, p in enumerate(pgn_order) if k % spec["n"] == spec["i"]}
    defs = [d for d in defs if d.pgn in mine]
    sources = [1, 2, 77]
    decA = claimed_decoder(sources)
    decB = claimed_decoder(sources, preferred_units={PhysicalQuantities.TEMPERATURE: "C", PhysicalQuantities.ANGLE: "deg",
                                                     PhysicalQuantities.SPEED: "kts", PhysicalQuantities.PRESSURE: "bar"})
    # decoders with network mapping off, otherwise configured in every way (the sources have claimed on them too)
    decs_off = [("default", NMEA2000Decoder())]
    for label_, kw_ in (("manufacturer-exclude", {"exclude_manufacturer_code": ["Garmin"]}), ("manufacturer-include", {"include_manufacturer_code": ["raymarine"]}),
                        ("units+pgn-filter", {"preferred_units": {PhysicalQuantities.ANGLE: "deg"}, "exclude_pgns": [130999]}), ("explicit-false", {"build_network_map": False})):
        d_ = NMEA2000Decoder(**kw_)
        for s_ in sources:
            d_.decode_basic_string(wire.plain_line(6, 60928, s_, 255, CLAIM.to_bytes(8, "little")), already_combined=True)
        decs_off.append((label_, d_))
    # a decoder that also dumps what it returns (the hash must not depend on it)
    import os
    import shutil
    from .. import runner
    dump_dir = os.path.join(runner.SCRATCH, f"c17-dump-{os.getpid()}")
    decC = claimed_decoder(sources, dump_to_file=os.path.join(dump_dir, "dump.jsonl"), dump_pgns=[d.pgn for k, d in enumerate(defs) if k % 2 == 0])
    filtered_defs = [d for k, d in enumerate(defs) if k % 3 == 0 and any(f.pk for f in d.fields) and d.fixed_layout]
    filtered_ids = {d.id for d in filtered_defs}
    decF = claimed_decoder(sources, exclude_pgns=[d.id for d in filtered_defs]) if filtered_defs else None
    by_key = {}
    by_hash = {}
    cross = []
    n_fam = 8 if quick else 150

    def observe(dec, d, payload, nb, src=1, dst=255, prio=3, tag=""):
        try:
            m = dec.decode_basic_string(wire.plain_line(prio, d.pgn, src, dst, payload.to_bytes(nb, "little")), already_combined=True)
        except Exception:  # noqa: BLE001
            return None
        if m is None or m.id != d.id:
            return None
        k = key_of(dbx, d, payload)
        if k is None:
            return None
        w = {"definition": d.id, "payload_hex": payload.to_bytes(nb, "little").hex(), "src": src, "dst": dst, "prio": prio, "variant": tag}
        acc.case((d.id, payload, src, dst, prio, tag))
        if m.hash is None:
            acc.violation("hash-missing-with-mapping-on", f"{d.id}: message returned without hash although network mapping is on", w)
            return None
        acc.count("hashes_grouped")
        if acc.evaluations % 5 == 0:
            # the hash belongs to the message: copies an application makes of it (the same id and key values, perhaps another
            # addressing or time) carry it along
            import copy as _copy
            import dataclasses as _dc
            for how_, make_ in (("copy.copy", lambda: _copy.copy(m)), ("copy.deepcopy", lambda: _copy.deepcopy(m)),
                                ("dataclasses.replace(destination)", lambda: _dc.replace(m, destination=(m.destination + 1) % 255)),
                                ("dataclasses.replace(source, priority)", lambda: _dc.replace(m, source=(m.source + 1) % 250, priority=(m.priority + 1) % 8)),
                                ("from_json(to_json)", lambda: type(m).from_json(m.to_json()))):
                try:
                    c_ = make_()
                except Exception:  # noqa: BLE001  (C15's business)
                    continue
                acc.count("copies_of_messages_checked_for_their_hash")
                if c_.hash != m.hash:
                    acc.violation("hash-lost-or-changed-in-a-copy", f"{d.id}: hash {m.hash} of the decoded message, {c_.hash!r} in its copy made by {how_}", dict(w, copy=how_))
                    break
        h_before = m.hash
        try:
            m.to_json()
        except Exception:  # noqa: BLE001 - C15's business
            pass
        if m.hash != h_before:
            acc.violation("hash-changes-when-message-is-serialised", f"{d.id}: hash {h_before!r} became {m.hash!r} after to_json()", w)
            return None
        prev = by_key.setdefault(k, (m.hash, w))
        if prev[0] != m.hash:
            acc.violation("equal-key-different-hash", f"{d.id}: same id and key raws {k[1]} but hashes differ ({tag} vs {prev[1]['variant']})",
                          {"a": prev[1], "b": w})
        else:
            acc.count("equal_key_pairs")
        prevk = by_hash.setdefault(m.hash, (k, w))
        if prevk[0] != k:
            acc.violation("different-key-equal-hash", f"hash {m.hash} shared by {prevk[0]} and {k}", {"a": prevk[1], "b": w})
        return m.hash

    shared_keys = {}          # (pgn, fam, position) -> raw: siblings get equal raw values in their key fields
    for fam in range(n_fam):
        for d in defs:
            nb = d.length if d.length is not None else (d.total_bits() + 7) // 8
            keys = [f for f in d.fields if f.pk and f.match is None]
            nonkeys = [f for f in d.fields if not f.pk and f.match is None]
            base = gen.base_raws(d, rng, dbx)
            for pos_k, f in enumerate(keys):
                want = shared_keys.setdefault((d.pgn, fam, pos_k), base[f.order])
                if want <= f.mask and (f.ftype == "LOOKUP" or f.in_range(want)) and want != f.na_raw():
                    base[f.order] = want
            p0 = dbx.pack(d, base)
            if dbx.select(d.pgn, p0) is not d:
                continue
            h0 = observe(decA, d, p0, nb, tag="base")
            if h0 is None:
                continue
            # same key, other non-key fields
            for _ in range(3):
                raws = dict(base)
                for f in rng.sample(nonkeys, min(len(nonkeys), 3)):
                    raws[f.order] = gen.base_raw_for(f, rng, dbx)
                observe(decA, d, dbx.pack(d, raws), nb, tag="nonkey-changed")
            # addressing / configuration / instance variants of the same payload
            observe(decA, d, p0, nb, src=2, dst=255, prio=6, tag="other-source-priority")
            observe(decA, d, p0, nb, src=77, dst=17, prio=0, tag="other-destination")
            observe(decB, d, p0, nb, tag="unit-preferences")
            observe(decC, d, p0, nb, tag="dumping-decoder")
            # a decoder whose id filter drops some definitions of this shard: right before this message it is given one of those
            # (a frame with key fields of its own, dropped by the filter); what it computes for THIS message is unchanged
            if filtered_defs and d.id not in filtered_ids:
                fd_ = filtered_defs[acc.evaluations % len(filtered_defs)]
                pf_ = dbx.pack(fd_, gen.base_raws(fd_, rng, dbx))
                nbf_ = fd_.length if fd_.length is not None else (fd_.total_bits() + 7) // 8
                try:
                    rf_ = decF.decode_basic_string(wire.plain_line(3, fd_.pgn, 1, 255, pf_.to_bytes(nbf_, "little")), already_combined=True)
                except Exception:  # noqa: BLE001
                    rf_ = None
                if rf_ is None:
                    acc.count("frames_dropped_by_id_filter_before_a_hashed_message")
                observe(decF, d, p0, nb, tag="after-a-frame-dropped-by-the-id-filter")
            observe(claimed_decoder([1]), d, p0, nb, tag="fresh-decoder") if fam == 0 else None
            # one key field changed: must land in another class
            for f in keys:
                raws = dict(base)
                for _ in range(6):
                    u = gen.base_raw_for(f, rng, dbx)
                    if u != base[f.order]:
                        break
                else:
                    u = base[f.order] ^ 1
                raws[f.order] = u & f.mask
                if observe(decA, d, dbx.pack(d, raws), nb, tag=f"key-{f.id}-changed") is not None:
                    acc.count("different_key_pairs")
                # minimal change: adjacent raw value
                raws[f.order] = (base[f.order] + 1) & f.mask
                observe(decA, d, dbx.pack(d, raws), nb, tag=f"key-{f.id}-plus-one")
                acc.count("different_key_pairs")
            # boundary raw values in key fields: 0, 1 and the not-available pattern are all different keys, and a
            # value moving from one key field to another is a different key too
            for f in keys:
                for u in (0, 1, f.na_raw(), f.mask - 1):
                    raws = dict(base)
                    raws[f.order] = u & f.mask
                    observe(decA, d, dbx.pack(d, raws), nb, tag=f"key-{f.id}-raw-{u}")
            if len(keys) >= 2:
                a, b = keys[0], keys[1]
                for v in (1, 2, 3):
                    if v <= a.mask and v <= b.mask:
                        for pair in ((0, v), (v, 0), (v, v), (0, 0)):
                            raws = dict(base)
                            raws[a.order], raws[b.order] = pair
                            observe(decA, d, dbx.pack(d, raws), nb, tag=f"key-swap-{pair}")
            # mapping off: no hash
            for label_, dec_off in decs_off:
                try:
                    m = dec_off.decode_basic_string(wire.plain_line(3, d.pgn, 1, 255, p0.to_bytes(nb, "little")), already_combined=True)
                    if m is not None:
                        acc.count("mapping_off_checked")
                        if m.hash is not None:
                            acc.violation("hash-set-with-mapping-off", f"{d.id}: hash {m.hash} although network mapping is off (decoder: {label_})", {"definition": d.id, "decoder": label_})
                except Exception:  # noqa: BLE001
                    pass
            if fam == 0:
                cross.append((d, p0, nb, h0))
            acc.cover("definitions", d.id)
            acc.cover("key_field_counts", len(keys))
    # after the 10-minute discovery window a mapping decoder returns traffic of sources that never claimed: those
    # messages carry a hash too, and the same one as from a claimed source
    from ..lib import decoder_clock_advanced
    late = NMEA2000Decoder(build_network_map=True)
    with decoder_clock_advanced(11 * 60):
        for d in defs[: (40 if quick else 400)]:
            nb = d.length if d.length is not None else (d.total_bits() + 7) // 8
            p0 = dbx.pack(d, gen.base_raws(d, rng, dbx))
            if dbx.select(d.pgn, p0) is not d:
                continue
            h_late = observe(late, d, p0, nb, src=99, tag="unclaimed source after the discovery window")
            h_ref = observe(decA, d, p0, nb, src=1, tag="claimed source")
            if h_late is not None:
                acc.count("post_window_unclaimed_hashes")
    # definitions whose key is a variable-length string (station ids): same text -> same hash, other text -> other hash
    from .c01 import variable_cases
    for d in [x for x in dbx.defs if x.supported and not x.fixed_layout and any(f.pk for f in x.fields) and x.index % spec["n"] == spec["i"]]:
        for label, payload, nb, texts in variable_cases(dbx, d, rng, 12 if quick else 200):
            if observe(decA, d, payload, nb, tag=f"string-key {label}") is not None:
                acc.count("string_key_messages")
            observe(decB, d, payload, nb, src=2, prio=1, tag=f"string-key {label} other decoder/source")
        acc.cover("definitions", d.id)
        # keys that differ only in characters outside ASCII (and keys that differ only by such a character being there or
        # not): different station ids, different hashes
        crafted = ["東京", "大阪", "Køge-7", "Kge-7", "Kage-7", "äb", "öb", "b", "Ж1", "Я1", "1"]
        real_rand_text = gen.rand_text
        try:
            for t_ in crafted:
                gen.rand_text = lambda rng_, n_, unicode_=False, _t=t_: _t
                for label, payload, nb, texts in variable_cases(dbx, d, rng, 6):
                    if label in ("variable:2", "variable:3", "variable:4", "variable:5"):      # the modes that carry generated text
                        if observe(decA, d, payload, nb, tag=f"string-key crafted {t_!r} {label}") is not None:
                            acc.count("crafted_string_key_messages")
        finally:
            gen.rand_text = real_rand_text
    # second process, other hash seed
    if cross:
        env = dict(os.environ, PYTHONHASHSEED=str(rng.randrange(1, 4000000)), PYTHONDONTWRITEBYTECODE="1", VERIF_PHANTOM_MODULES="1" if spec["i"] % 2 == 0 else "0")
        inp = "\n".join(json.dumps([d.pgn, 1, p.to_bytes(nb, "little").hex()]) for d, p, nb, _ in cross)
        verif_dir = os.path.dirname(os.path.dirname(os.path.dirname(os.path.abspath(__file__))))
        try:
            res = subprocess.run([sys.executable, "-B", "-c", CHILD, REPO, verif_dir], input=inp, capture_output=True, text=True, timeout=120, env=env)
            hashes = json.loads(res.stdout.strip().splitlines()[-1])
        except Exception as e:  # noqa: BLE001
            acc.inconclusive_because(f"cross-process worker failed: {type(e).__name__}: {e}")
            hashes = []
        for (d, p, nb, h0), h in zip(cross, hashes):
            acc.count("cross_process_hashes_compared")
            if h != h0:
                acc.violation("hash-differs-between-processes", f"{d.id}: {h0} here, {h} in a process with another PYTHONHASHSEED",
                              {"definition": d.id, "payload_hex": p.to_bytes(nb, "little").hex()})
    acc.sample({"definitions": len(defs), "classes": len(by_key)})
    decC.close()
    shutil.rmtree(dump_dir, ignore_errors=True)


def replay(w, acc):
    acc.note("replay: witnesses carry the two payloads; re-run ./check C17")
