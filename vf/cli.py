"""./check <ID> [--tier quick|thorough] [--replay file] [--jobs N]"""
import argparse, importlib, json, os, sys, time

# The library is imported, and most shards run, in a time zone west of Greenwich (UTC-10, no daylight saving): the
# local date of the Unix epoch is then 1969-12-31, which exposes any use of local-time functions for what the
# database defines as days / seconds since 1970-01-01 UTC. Half of the shards switch to UTC+13 (vf.runner).
os.environ["TZ"] = os.environ.get("VERIF_TZ", "HST10")
time.tzset()


def main(argv=None):
    ap = argparse.ArgumentParser()
    ap.add_argument("check")
    ap.add_argument("--tier", default=os.environ.get("VERIF_TIER", "quick"), choices=["quick", "thorough"])
    ap.add_argument("--replay")
    ap.add_argument("--seed", type=int, default=None)
    a = ap.parse_args(argv)
    seed = a.seed if a.seed is not None else int(os.environ.get("VERIF_SEED", "0") or 0)
    t0 = time.time()
    from . import runner
    try:
        mod = importlib.import_module(f"vf.checks.{a.check.lower()}")
    except Exception as e:  # a harness that cannot even load decides nothing
        import traceback; traceback.print_exc()
        print(f"INCONCLUSIVE property={a.check} reason=harness import failed: {type(e).__name__}: {e}")
        return 2
    if a.replay:
        with open(a.replay) as fh:
            doc = json.load(fh)
        acc = runner.Acc(mod.ID)
        for w in doc.get("witnesses", []):
            mod.replay(w, acc)
        for k, v in acc.violations.items():
            print(f"REPLAY reproduces key={k} count={v['count']} what={v['what']}")
            for w in v["witnesses"]:
                print("   ", json.dumps(w, default=runner._json_default)[:2000])
        if not acc.violations:
            print("REPLAY: no violation reproduced")
        return 1 if acc.violations else 0
    specs = mod.shards(a.tier, seed)
    # (the hostile-neighbourhood modes of rounds 12/13 roughly tripled the decoding work: the watchdog budgets, which only
    # matter when something hangs, are doubled)
    timeout = getattr(mod, "SHARD_TIMEOUT", {"quick": 240, "thorough": 1500})[a.tier] * float(os.environ.get("VERIF_TIMEOUT_SCALE", "2"))
    # scratch directories of shards that were killed before their own clean-up ran (named ...-<pid>): removed when that process
    # is gone
    try:
        import re as _re
        import shutil as _shutil
        for n_ in os.listdir(runner.SCRATCH):
            m_ = _re.search(r"-(\d+)$", n_)
            p_ = os.path.join(runner.SCRATCH, n_)
            if m_ and os.path.isdir(p_) and not os.path.exists(f"/proc/{m_.group(1)}"):
                _shutil.rmtree(p_, ignore_errors=True)
    except OSError:
        pass
    from . import harvest
    harvest.preload()          # constants of the tree under test, parsed once here and inherited by the forked shards
    opt_dump = os.environ.get("VERIF_OPT_PASS_DUMP")
    if opt_dump:
        # second pass of the same check inside an interpreter started with -O (assert statements stripped): a third of
        # the shards; the accumulator goes back to the parent run, which decides
        acc = runner.run_shards(mod, [sp for k, sp in enumerate(specs) if k % 3 == seed % 3], timeout)
        acc.count("shards_run_under_python_O", len([1 for k in range(len(specs)) if k % 3 == seed % 3]))
        acc.dump(opt_dump)
        return 0
    acc = runner.run_shards(mod, specs, timeout)
    if os.environ.get("VERIF_NO_OPT_PASS") != "1" and not sys.flags.optimize:
        import subprocess, tempfile
        fd, path = tempfile.mkstemp(prefix=f"{mod.ID}-optpass-", suffix=".json", dir=runner.SCRATCH)
        os.close(fd)
        env = dict(os.environ, VERIF_OPT_PASS_DUMP=path)
        try:
            # ... and with warnings turned into errors, as under `python -W error` / pytest's filterwarnings=error (ResourceWarning
            # excepted: it is raised inside finalisers, where it cannot be an error): code that merely wants to WARN then raises
            werr = [x for c_ in ("DeprecationWarning", "PendingDeprecationWarning", "FutureWarning", "UserWarning", "RuntimeWarning", "SyntaxWarning", "ImportWarning",
                                 "UnicodeWarning", "BytesWarning", "EncodingWarning") for x in ("-W", f"error::{c_}")]
            r = subprocess.run([sys.executable, "-O", "-B"] + werr + ["-m", "vf.cli", a.check, "--tier", a.tier, "--seed", str(seed)], env=env,
                               cwd=os.path.dirname(os.path.dirname(os.path.abspath(__file__))), capture_output=True, text=True, timeout=timeout * 2)
            if r.returncode == 0 and os.path.getsize(path) > 0:
                acc.absorb_file(path)
                acc.note("a third of the shards ran a second time under python -O (assert statements stripped) with warnings turned into errors (-W error): the properties hold there as well or the violations are listed above")
            else:
                acc.inconclusive_because(f"python -O pass failed to run (exit {r.returncode}): {r.stderr[-300:]}")
        except subprocess.TimeoutExpired:
            acc.inconclusive_because("python -O pass exceeded its time budget")
        finally:
            for pth in (path, path + ".hashes"):
                if os.path.exists(pth):
                    os.unlink(pth)
    return runner.finish(mod, acc, a.tier, seed, t0)


if __name__ == "__main__":
    sys.exit(main())
