"""Generators: per-field value classes, base payloads, strings."""
from __future__ import annotations

import math
import random
import struct

from .refdb import Definition, Field, NUMERIC_TYPES


def rng_for(seed, *parts) -> random.Random:
    return random.Random(":".join(str(p) for p in (seed,) + parts))


def f32(raw: int) -> float:
    return struct.unpack("<f", struct.pack("<I", raw & 0xFFFFFFFF))[0]


def f32_raw(x: float) -> int:
    return struct.unpack("<I", struct.pack("<f", x))[0]


def field_classes(f: Field, rng: random.Random, n_random: int = 2, db=None):
    """Yield (class_name, unsigned_raw, in_range) for a fixed-width field.
    in_range: True = inside database range (or the not-available pattern), False = outside, None = n/a."""
    bits = f.bits
    if bits is None:
        return
    full = (1 << bits) - 1
    t = f.ftype
    if t in NUMERIC_TYPES:
        lo, hi = f.raw_bounds()
        na = f.na_raw()
        smin = -(1 << (bits - 1)) if f.signed else 0
        smax = (1 << (bits - 1)) - 1 if f.signed else full
        cand = [("range_min", lo), ("range_max", hi), ("range_min+1", lo + 1), ("range_max-1", hi - 1),
                ("range_min-1", lo - 1), ("range_max+1", hi + 1), ("zero", 0), ("one", 1),
                ("repr_min", smin), ("repr_max", smax), ("na", f.sign_extend(na)), ("na-1", f.sign_extend(na) - 1),
                ("na-2", f.sign_extend(na) - 2)]
        if f.signed:
            cand += [("minus_one", -1), ("minus_two", -2)]
        if hi >= lo:
            for i in range(n_random):
                cand.append((f"random_in_range", rng.randint(lo, hi)))
        cand.append(("random_any", rng.randint(smin, smax)))
        # values the code under test mentions literally (harvested from its source at run time), as raw codes and as the raw
        # code of that physical value
        hv = _harvested()
        if hv:
            picks = rng.sample(hv, min(len(hv), 4))
            for c in picks:
                cand.append(("harvested_constant", c))
                try:
                    cand.append(("harvested_constant_as_value", int(round(c / float(f.res)))))
                except Exception:  # noqa: BLE001
                    pass
        seen = set()
        for name, s in cand:
            if s < smin or s > smax:
                continue
            if (name.startswith("random") is False) and s in seen:
                continue
            seen.add(s)
            u = s & full
            is_na = (u == na and bits >= 2)
            yield name, u, (True if is_na else f.in_range(u))
    elif t == "LOOKUP":
        tab = db.lookups[f.lookup] if db else {}
        vals = [v for v in tab if 0 <= v <= full]
        picks = vals if len(vals) <= 6 else rng.sample(vals, 6)
        for v in picks:
            yield "lookup_defined", v, True
        for c in rng.sample(_harvested(), min(len(_harvested()), 3)):
            if 0 <= c <= full:
                yield "harvested_constant", c, True
        undefined = [v for v in (0, 1, full, full - 1, rng.randint(0, full)) if v not in tab and 0 <= v <= full]
        for v in undefined[:2]:
            yield "lookup_undefined", v, True
        yield "lookup_all_ones", full, True
    elif t == "BITLOOKUP":
        yield "bits_none", 0, True
        yield "bits_all", full, True
        for b in rng.sample(range(bits), min(bits, 3)):
            yield "bits_single", 1 << b, True
        yield "bits_random", rng.randint(0, full), True
    elif t == "INDIRECT_LOOKUP":
        for v in (0, 1, full, rng.randint(0, full)):
            yield "indirect", v, True
    elif t in ("RESERVED", "SPARE", "BINARY"):
        yield "all_zero", 0, True
        yield "all_one", full, True
        yield "random_bits", rng.randint(0, full), True
        if bits > 8:
            yield "high_byte_only", 0xFF << (bits - 8) & full, True
            yield "low_byte_only", 0xFF, True
    elif t == "FLOAT":
        lo = float(f.rmin) if f.rmin is not None else -3.0e38
        hi = float(f.rmax) if f.rmax is not None else 3.0e38
        for name, x in (("f_zero", 0.0), ("f_one", 1.0), ("f_minus", -1.5), ("f_small", 1.1754944e-38),
                        ("f_random", rng.uniform(-1e6, 1e6)), ("f_random2", rng.uniform(-1, 1))):
            r = f32_raw(x)
            y = f32(r)
            yield name, r, (lo <= y <= hi)
        for name, r in (("f_nan", 0x7FC00000), ("f_inf", 0x7F800000), ("f_ninf", 0xFF800000), ("f_all_ones", 0xFFFFFFFF)):
            yield name, r, False
    elif t == "STRING_FIX":
        nbytes = bits // 8
        for name, s in string_fix_cases(nbytes, rng):
            yield name, int.from_bytes(s, "little"), True
    else:
        yield "raw_random", rng.randint(0, full), None


ALNUM = "ABCDEFGHIJKLMNOPQRSTUVWXYZabcdefghijklmnopqrstuvwxyz0123456789"


def _harvested():
    try:
        from . import harvest
        return harvest.constants()["ints"]
    except Exception:  # noqa: BLE001 - no harvest, no extra candidates
        return []


def harvested_in(lo, hi):
    return [v for v in _harvested() if lo <= v <= hi]


def string_fix_cases(nbytes: int, rng: random.Random):
    """(name, bytes) with unambiguous expected text: ASCII alnum body (inner single spaces allowed),
    padding only at the tail with one of the observed pad bytes."""
    def body(n):
        chars = [rng.choice(ALNUM) for _ in range(n)]
        if n >= 3:
            chars[n // 2] = " " if rng.random() < 0.3 else chars[n // 2]
        return "".join(chars)
    out = []
    out.append(("str_full", body(nbytes).encode()))
    for pad_name, pad in (("nul", 0), ("ff", 0xFF), ("at", 0x40), ("space", 0x20)):
        n = rng.randint(0, max(0, nbytes - 1))
        out.append((f"str_pad_{pad_name}", body(n).encode() + bytes([pad]) * (nbytes - n)))
    # text, then blanks, then the terminator padding (blank-padded text in a NUL/@/ff padded field)
    for pad_name, pad in (("nul", 0), ("at", 0x40), ("ff", 0xFF)):
        if nbytes >= 4:
            n = rng.randint(1, nbytes - 3)
            k = rng.randint(1, nbytes - n - 1)
            out.append((f"str_blanks_then_{pad_name}", body(n).encode() + b" " * k + bytes([pad]) * (nbytes - n - k)))
    out.append(("str_empty_ff", b"\xff" * nbytes))
    out.append(("str_empty_nul", b"\x00" * nbytes))
    return out


_BODY = set(ALNUM.encode()) | {0x20}


def is_generator_string(raw_bytes: bytes) -> bool:
    """True for content of the shape the generators make: alnum/space body then homogeneous padding
    (00, ff, '@' or space) up to the end.  Only such content has an unambiguous expected text."""
    n = len(raw_bytes)
    i = 0
    while i < n and raw_bytes[i] in _BODY:          # body (may end in blanks)
        i += 1
    tail = raw_bytes[i:]
    if not tail:
        return True
    return tail[0] in (0x00, 0xFF, 0x40, 0x20) and tail == bytes([tail[0]]) * len(tail)


def expected_string_fix(raw_bytes: bytes) -> str:
    """Text of a generator-made STRING_FIX (alnum/space body + homogeneous tail padding)."""
    s = raw_bytes
    for stop in (b"\x00", b"\xff", b"@"):
        i = s.find(stop)
        if i >= 0:
            s = s[:i]
    return s.decode("ascii").strip()


def base_raws(d: Definition, rng: random.Random, db=None) -> dict:
    """Every fixed field at a random in-range, present value; match fields at their match value."""
    raws = {}
    for f in d.fields:
        if f.bits is None or f.off is None:
            continue
        raws[f.order] = base_raw_for(f, rng, db)
    return raws


def base_raw_for(f: Field, rng: random.Random, db=None) -> int:
    full = (1 << f.bits) - 1
    if f.match is not None:
        return f.match & full
    t = f.ftype
    if t == "PGN" and db is not None and rng.random() < 0.4:
        # a PGN-typed field (ISO request, acknowledgement, transport protocol): PGN numbers the code under test mentions
        known = [v for v in _harvested() if v in db.by_pgn and v <= full]
        if known:
            return rng.choice(known)
    if t in NUMERIC_TYPES:
        lo, hi = f.raw_bounds()
        if hi < lo:
            return f.na_raw()
        if rng.random() < 0.05:
            hv = harvested_in(lo, hi)
            if hv:
                u = rng.choice(hv) & full
                if u != f.na_raw():
                    return u
        for _ in range(8):
            s = rng.randint(lo, hi)
            u = s & full
            if u != f.na_raw() or f.bits < 2:
                return u
        return lo & full
    if t == "LOOKUP" and db is not None:
        tab = db.lookups[f.lookup]
        vals = [v for v in tab if 0 <= v <= full]
        if vals and rng.random() < 0.8:
            return rng.choice(vals)
        return rng.randint(0, full)
    if t == "FLOAT":
        lo = float(f.rmin) if f.rmin is not None else -1e6
        hi = float(f.rmax) if f.rmax is not None else 1e6
        lo, hi = max(lo, -1e6), min(hi, 1e6)
        return f32_raw(rng.uniform(lo, hi))
    if t == "STRING_FIX":
        nbytes = f.bits // 8
        n = rng.randint(0, nbytes)
        s = "".join(rng.choice(ALNUM) for _ in range(n)).encode() + bytes([rng.choice((0, 0xFF, 0x40, 0x20))]) * (nbytes - n)
        return int.from_bytes(s, "little")
    return rng.randint(0, full)


def lau_bytes(text: str, ascii_: bool) -> bytes:
    body = text.encode("utf-8") if ascii_ else text.encode("utf-16-le")
    return bytes([len(body) + 2, 1 if ascii_ else 0]) + body


def lz_bytes(text: str) -> bytes:
    body = text.encode("utf-8")
    return bytes([len(body)]) + body + b"\x00"


def rand_text(rng: random.Random, n: int, unicode_: bool = False) -> str:
    alphabet = ALNUM + (" -_." if n > 2 else "")
    if unicode_:
        alphabet += "äöüéèßØπλЖ日本"
    s = "".join(rng.choice(alphabet) for _ in range(n))
    if unicode_ and n >= 2 and rng.random() < 0.25:
        # characters that codecs treat specially at the start of a text: byte-order marks, a no-break space
        s = rng.choice(["\ufeff", "\ufffe", "\u00a0", "\u200b"]) + s[1:]
    return s


def shard_by_pgn(defs, i, n):
    """Definitions of shard i of n, with all definitions of one PGN number kept together (sibling definitions of a
    proprietary PGN must meet inside one process / on one long-lived codec instance)."""
    order = sorted({d.pgn for d in defs})
    mine = {p for k, p in enumerate(order) if k % n == i}
    return [d for d in defs if d.pgn in mine]


def sibling_groups(defs):
    by = {}
    for d in defs:
        by.setdefault(d.pgn, []).append(d)
    return [ds for ds in by.values() if len(ds) > 1]


def harvested_byte_literals(min_len=2, max_len=16):
    """Only the BYTE literals of the code under test (what a receive path compares wire data with), in full and by prefix."""
    try:
        from . import harvest
        c = harvest.constants()
    except Exception:  # noqa: BLE001
        return []
    out = set()
    for b in c["bytes"]:
        if min_len <= len(b) <= max_len:
            out.add(b)
        for k in range(max(3, min_len), min(len(b), max_len + 1)):
            out.add(b[:k])
    return sorted(out)


def harvested_byte_strings(min_len=2, max_len=16):
    """Byte strings the code under test mentions literally (bytes and ASCII str literals), and their prefixes of 4+ bytes."""
    try:
        from . import harvest
        c = harvest.constants()
    except Exception:  # noqa: BLE001
        return []
    out = set()
    # byte literals in full and by prefix; text literals only when they are short, word-like tokens (what a receive path
    # might compare a frame or a line with) - not log messages
    texts = [x.encode("latin-1", "ignore") for x in c["strs"] if x.isascii() and 2 <= len(x) <= 16 and " " not in x.strip() and any(ch.isalnum() for ch in x)]
    for b in list(c["bytes"]) + texts:
        if min_len <= len(b) <= max_len:
            out.add(b)
    for b in c["bytes"]:
        for k in range(3, min(len(b), max_len)):
            out.add(b[:k])
    return sorted(out)[:160]


def proprietary_payloads_with(literal: bytes, rng, fast: bool):
    """Payloads of the catch-all proprietary definitions (manufacturer 2046, nobody's) that carry `literal` in their data."""
    head = bytes([0xFE, 0x07])
    if not fast:
        room = 6
        for off in range(0, room - min(len(literal), room) + 1):
            body = bytearray(rng.randrange(1, 250) for _ in range(room))
            body[off:off + len(literal[:room])] = literal[:room]
            yield head + bytes(body[:room])
    else:
        for off in (0, 3, 4, 5, 9, 11):
            body = bytearray(rng.randrange(1, 250) for _ in range(off + len(literal) + 3))
            body[off:off + len(literal)] = literal
            yield head + bytes(body)
