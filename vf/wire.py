"""Harness-side wire packers/parsers, written from the J1939 layout and the gateway format documents
(independent of NMEA2000Encoder/NMEA2000Decoder)."""
from __future__ import annotations


def can_id(prio: int, pgn: int, src: int, dst: int) -> int:
    """29-bit identifier: prio 26-28, DP 24-25, PF 16-23, PS 8-15, SA 0-7; PDU1 iff PF < 240."""
    dp = (pgn >> 16) & 0x3
    pf = (pgn >> 8) & 0xFF
    ps = (dst & 0xFF) if pf < 240 else (pgn & 0xFF)
    return ((prio & 7) << 26) | (dp << 24) | (pf << 16) | (ps << 8) | (src & 0xFF)


def parse_id(ident: int):
    """-> (prio, pgn, src, dst) per J1939."""
    src = ident & 0xFF
    ps = (ident >> 8) & 0xFF
    pf = (ident >> 16) & 0xFF
    dp = (ident >> 24) & 0x3
    prio = (ident >> 26) & 0x7
    if pf < 240:
        return prio, (dp << 16) | (pf << 8), src, ps
    return prio, (dp << 16) | (pf << 8) | ps, src, 255


# ---- frame formats ---------------------------------------------------------

def ebyte_frame(ident: int, data: bytes, pad: int = 0) -> bytes:
    assert len(data) <= 8
    return bytes([0x80 | len(data)]) + ident.to_bytes(4, "big") + data + bytes([pad]) * (8 - len(data))


def parse_ebyte(pkt: bytes):
    n = pkt[0] & 0x0F
    return int.from_bytes(pkt[1:5], "big"), bytes(pkt[5:5 + n])


def usb_checksum(pkt) -> int:
    return sum(pkt[2:19]) & 0xFF


def usb_frame(ident: int, data: bytes, pad: int = 0) -> bytes:
    assert len(data) <= 8
    p = bytes([0xAA, 0x55, 0x01, 0x02, 0x01]) + ident.to_bytes(4, "little") + bytes([len(data)]) + data + bytes([pad]) * (8 - len(data)) + b"\x00"
    return p + bytes([usb_checksum(p)])


def parse_usb(pkt: bytes):
    n = pkt[9]
    return int.from_bytes(pkt[5:9], "little"), bytes(pkt[10:10 + n])


def yd_line(ident: int, data: bytes, direction: str = "R", ts: str = "00:01:54.430", lower: bool = False, eol: str = "\r\n") -> str:
    hx = "%08X" % ident + " " + " ".join("%02X" % b for b in data)
    if lower:
        hx = hx.lower()
    return f"{ts} {direction} {hx}{eol}"


def parse_yd_tx(line: bytes):
    """Line as written by the library for transmission: '<8 hex id> <hex bytes>\\r\\n'."""
    parts = line.decode("ascii").split()
    return int(parts[0], 16), bytes(int(x, 16) for x in parts[1:])


# ---- whole-message formats ----------------------------------------------------

def actisense_line(prio: int, pgn: int, src: int, dst: int, payload: bytes, ts: str = "A000057.055", lower: bool = False) -> str:
    n = (src << 12) | (dst << 4) | prio
    body = f"{n:05X} {pgn:05X} {payload.hex().upper()}"
    if lower:
        body = body.lower()
    return f"{ts} {body}"


def plain_line(prio: int, pgn: int, src: int, dst: int, data: bytes, ts: str = "2024-01-01-00:00:00.000", lower=True) -> str:
    hx = ",".join(("%02x" if lower else "%02X") % b for b in data)
    return f"{ts},{prio},{pgn},{src},{dst},{len(data)},{hx}"


# ---- fast packet -----------------------------------------------------------------

def fast_frames(payload: bytes, seq: int, pad: int | None = 0xFF) -> list[bytes]:
    """Reference segmentation: frame 0 = [seq<<5|0, len, 6 bytes], frame k = [seq<<5|k, 7 bytes].
    pad=None leaves the last frame short, otherwise it is padded to 8 data bytes."""
    frames = [bytes([(seq & 7) << 5, len(payload)]) + payload[:6]]
    pos, k = 6, 1
    while pos < len(payload):
        frames.append(bytes([((seq & 7) << 5) | k]) + payload[pos:pos + 7])
        pos += 7
        k += 1
    if pad is not None:
        frames = [f + bytes([pad]) * (8 - len(f)) for f in frames]
    return frames


def parse_fast_frames(frames: list[bytes]):
    """-> dict(seq, announced, counters, payload, problems) from frames as produced by a sender."""
    problems = []
    if not frames:
        return {"problems": ["no frames"]}
    seqs = {f[0] >> 5 for f in frames if f}
    counters = [f[0] & 0x1F for f in frames if f]
    if any(len(f) > 8 for f in frames):
        problems.append("frame with more than 8 data bytes")
    if any(len(f) == 0 for f in frames):
        problems.append("empty frame")
    if len(seqs) != 1:
        problems.append(f"mixed sequence counters {sorted(seqs)}")
    if counters != list(range(len(frames))):
        problems.append(f"frame counters {counters}")
    first = frames[0]
    if len(first) < 2:
        problems.append("first frame without length byte")
        return {"problems": problems}
    announced = first[1]
    body = first[2:] + b"".join(f[1:] for f in frames[1:])
    for i, f in enumerate(frames[1:], 1):
        if len(f) < 2:
            problems.append(f"frame {i} carries no payload byte")
    return {"seq": next(iter(seqs)) if seqs else None, "announced": announced, "counters": counters,
            "payload": body, "problems": problems}
