"""Imports the library under test from the current working tree of the repository."""
import logging, os, sys

REPO = os.environ.get("VERIF_REPO", "/repo")
if sys.path[0] != REPO:
    sys.path.insert(0, REPO)

logging.disable(logging.CRITICAL)      # the library logs every packet; monitors do not read logs

import nmea2000                                   # noqa: E402
from nmea2000 import decoder as decoder_mod      # noqa: E402
from nmea2000 import encoder as encoder_mod      # noqa: E402
from nmea2000 import message as message_mod      # noqa: E402
from nmea2000 import utils as utils_mod          # noqa: E402
from nmea2000 import pgns as pgns_mod            # noqa: E402
from nmea2000 import consts as consts_mod        # noqa: E402
from nmea2000.decoder import NMEA2000Decoder     # noqa: E402
from nmea2000.encoder import NMEA2000Encoder     # noqa: E402
from nmea2000.message import NMEA2000Message, NMEA2000Field, IsoName  # noqa: E402
from nmea2000.consts import PhysicalQuantities, FieldTypes            # noqa: E402

assert os.path.realpath(nmea2000.__file__).startswith(os.path.realpath(REPO)), nmea2000.__file__
CANBOAT_JSON = os.path.join(REPO, "canboat.json")
