"""Imports the library under test from the current working tree of the repository."""
import logging, os, sys

REPO = os.environ.get("VERIF_REPO", "/repo")
if sys.path[0] != REPO:
    sys.path.insert(0, REPO)

logging.disable(logging.CRITICAL)      # the library logs every packet; monitors do not read logs

import nmea2000                                   # noqa: E402
from nmea2000 import decoder as decoder_mod      # noqa: E402
from nmea2000 import encoder as encoder_mod      # noqa: E402
from nmea2000 import message as message_mod      # noqa: E402
from nmea2000 import utils as utils_mod          # noqa: E402
from nmea2000 import pgns as pgns_mod            # noqa: E402
from nmea2000 import consts as consts_mod        # noqa: E402
from nmea2000.decoder import NMEA2000Decoder     # noqa: E402
from nmea2000.encoder import NMEA2000Encoder     # noqa: E402
from nmea2000.message import NMEA2000Message, NMEA2000Field, IsoName  # noqa: E402
from nmea2000.consts import PhysicalQuantities, FieldTypes            # noqa: E402

assert os.path.realpath(nmea2000.__file__).startswith(os.path.realpath(REPO)), nmea2000.__file__
CANBOAT_JSON = os.path.join(REPO, "canboat.json")


import contextlib as _contextlib
import datetime as _dt


@_contextlib.contextmanager
def decoder_clock_advanced(seconds: float):
    """Inside the block the decoder module's clock (its `datetime.now()`) runs `seconds` ahead - the seam is the
    module attribute `datetime` that nmea2000.decoder imported; everything else in the process keeps real time."""
    real = decoder_mod.datetime

    class _Shifted(real):               # type: ignore[misc, valid-type]
        @classmethod
        def now(cls, tz=None):
            return real.now(tz) + _dt.timedelta(seconds=seconds)
    decoder_mod.datetime = _Shifted
    try:
        yield
    finally:
        decoder_mod.datetime = real


@_contextlib.contextmanager
def decoder_clock_box():
    """Like decoder_clock_advanced, but the offset can be moved while inside the block: box["offset"] seconds."""
    real = decoder_mod.datetime
    box = {"offset": 0.0}

    class _Shifted(real):               # type: ignore[misc, valid-type]
        @classmethod
        def now(cls, tz=None):
            return real.now(tz) + _dt.timedelta(seconds=box["offset"])
    decoder_mod.datetime = _Shifted
    try:
        yield box
    finally:
        decoder_mod.datetime = real


# ----------------------------------------------------------------------------------------------------------------------
# Hostile neighbourhood for the decoders the checks create.
#
# The checks import NMEA2000Decoder from this module. What they get is the library's class with its five public decode
# entry points wrapped (nothing else: attributes, private methods and construction are the library's own). Depending on
# HOSTILE (set per shard by vf.runner) a wrapped call
#   neighbour  first hands a COPY of the same input to another decoder of the same process that is configured differently
#              (unit preferences for every quantity; network mapping + manufacturer filter + a dump to /dev/null), two
#              calls out of three. Neighbours are created lazily (i.e. after the decoder under observation) and replaced
#              now and then. Their results and exceptions are discarded. Decoders are independent objects: what a neighbour
#              decodes, converts, caches or trips over must not show in what this decoder returns.
#   reuse      hands the packet over in one bytearray per decoder that is refilled for every call (the buffer of a read
#              loop): a decoder that needs a frame beyond the call has to copy it.
#   scribble   returns a copy of the message (own field objects; the source identity object stays shared, as in the
#              library) and then overwrites the object the library returned: a returned message is the caller's, the
#              library must not keep using it.
# All three only add activity that a correct library is indifferent to; the oracles of the checks are unchanged.
#   embed      (construction time and object protocol - how an application embeds a decoder)
#              * a sibling decoder is built FIRST from the very same argument objects (one settings list / dict for all the
#                decoders of an application), closed and dropped; now and then the garbage collector runs
#              * the decoder under observation is built from deep copies of the arguments, and the copies are overwritten
#                afterwards (an application that edits its settings later): a decoder works with what it was given
#              * every second decoder is handed out as a COPY of the one just built (copy.deepcopy / pickle round trip by
#                turns) when it can be copied (no open dump file), and every 97th call continues on a deep copy of the
#                decoder's state taken at that moment
#              * the class the checks use defines value equality and a constant hash, as an application subclass may (one
#                decoder per gateway name, say): all of them are equal to each other
#              * one neighbour is built with default arguments and then has its public settings containers edited
HOSTILE = {"neighbour": False, "reuse": False, "scribble": False, "embed": False}
HOSTILE_STATS = {"neighbour_calls": 0, "neighbours_created": 0, "reused_buffer_calls": 0, "scribbled_messages": 0, "siblings_built_from_the_same_argument_objects": 0,
                 "decoders_handed_out_as_deepcopy": 0, "decoders_handed_out_after_pickle_round_trip": 0, "argument_containers_overwritten_after_construction": 0,
                 "sessions_continued_on_a_deep_copy_of_the_decoder": 0, "garbage_collections_forced": 0}
_RealDecoder = NMEA2000Decoder
_NEIGH = {"list": [], "calls": 0}


def _neighbours():
    st = _NEIGH
    if not st["list"] or st["calls"] % 5000 == 4999:
        for d_ in st["list"]:
            try:
                d_.close()
            except Exception:  # noqa: BLE001
                pass
        prefs = {PhysicalQuantities.TEMPERATURE: "C", PhysicalQuantities.PRESSURE: "bar", PhysicalQuantities.ANGLE: "deg", PhysicalQuantities.SPEED: "kts"}
        prefs2 = {PhysicalQuantities.TEMPERATURE: "f", PhysicalQuantities.PRESSURE: "psi", PhysicalQuantities.ANGLE: "deg"}
        st["list"] = []
        if HOSTILE["embed"]:
            # built with nothing but defaults, then its settings are edited through its attributes (whatever containers it has)
            n3 = _RealDecoder()
            for name_, val_ in list(vars(n3).items()):
                try:
                    if name_ == "preferred_units" and isinstance(val_, dict):
                        val_.update({k_: "c" if k_ is PhysicalQuantities.TEMPERATURE else "deg" for k_ in (PhysicalQuantities.TEMPERATURE, PhysicalQuantities.ANGLE)})
                    elif isinstance(val_, list) and ("exclude" in name_ or "include" in name_) and "manufacturer" not in name_ and "ids" not in name_:
                        pass            # (an include list that is no longer empty changes what that decoder returns - its own business)
                    elif isinstance(val_, set) and "exclude_manufacturer" in name_:
                        val_.add("garmin")
                except Exception:  # noqa: BLE001
                    pass
            st["list"].append(n3)
        # (the differently configured neighbours are built LAST: whatever a constructor leaves behind in the class or the module
        # is then theirs - built first, the default-argument neighbour above would wipe it again; the self-test caught that)
        st["list"] += [_RealDecoder(preferred_units=prefs),
                       _RealDecoder(preferred_units=prefs2, build_network_map=True, exclude_manufacturer_code=["Garmin"], dump_to_file="/dev/null")]
        HOSTILE_STATS["neighbours_created"] += len(st["list"])
    return st["list"]


def _scribble(m):
    try:
        for f in list(m.fields):
            f.value, f.raw_value, f.unit_of_measurement, f.name = "scribbled-by-the-caller", 0x5A5A5A5A, "scribbled", "scribbled"
            f.id = "scribbled"
        m.fields.clear()
        m.PGN, m.id, m.source, m.destination, m.priority, m.hash = 0, "scribbledByTheCaller", 254, 254, 7, "scribbled"
        HOSTILE_STATS["scribbled_messages"] += 1
    except Exception:  # noqa: BLE001  (a message that cannot be written to is not scribbled on)
        pass


def _hostile_call(self, real, arg, a, k):
    import copy as _copy
    h = HOSTILE
    if getattr(self, "_vf_plain", False) or not (h["neighbour"] or h["reuse"] or h["scribble"]):
        return real(self, arg, *a, **k)
    if h["neighbour"]:
        st = _NEIGH
        st["calls"] += 1
        # (two calls out of three in the quick tier, one out of three in the thorough tier, whose workloads are 10-100 times larger)
        if (st["calls"] % 3 != 0) if not HOSTILE.get("sparse") else (st["calls"] % 3 == 1):
            for n_ in _neighbours():
                try:
                    real(n_, bytes(arg) if isinstance(arg, (bytes, bytearray, memoryview)) else arg, *a, **k)
                except Exception:  # noqa: BLE001
                    pass
            HOSTILE_STATS["neighbour_calls"] += 1
    if h["embed"] and self.__dict__.get("dump_TextIOWrapper", 0) is None:
        n_ = self.__dict__["_vf_calls"] = self.__dict__.get("_vf_calls", 0) + 1
        if n_ % 97 == 0:
            # the application goes on with a deep copy of the decoder taken right now (a snapshot restored, a template cloned)
            try:
                snap = _copy.deepcopy(self)
                self.__dict__.clear()
                self.__dict__.update(snap.__dict__)
                self.__dict__["_vf_calls"] = n_
                HOSTILE_STATS["sessions_continued_on_a_deep_copy_of_the_decoder"] += 1
            except Exception:  # noqa: BLE001  (a decoder that cannot be copied is not copied)
                pass
    scratch = None
    if h["reuse"] and type(arg) is bytes:
        scratch = self.__dict__.get("_vf_scratch")
        if scratch is None:
            scratch = self.__dict__["_vf_scratch"] = bytearray()
        scratch[:] = arg
        arg = scratch
        HOSTILE_STATS["reused_buffer_calls"] += 1
    m = real(self, arg, *a, **k)
    if m is None:
        return None
    if scratch is not None and getattr(m, "raw_can_data", None) is scratch:
        m.raw_can_data = bytes(scratch)          # what the message says about the frame it came from is the caller's business
    if h["scribble"]:
        ret = _copy.copy(m)
        ret.fields = [_copy.copy(f) for f in m.fields]
        _scribble(m)
        return ret
    return m


_EMBED = {"n": 0, "busy": False}


def _overwrite_containers(obj, depth=0):
    if depth > 3:
        return
    if isinstance(obj, dict):
        for v in list(obj.values()):
            _overwrite_containers(v, depth + 1)
        keys = list(obj)
        obj.clear()
        if keys and all(isinstance(k_, PhysicalQuantities) for k_ in keys):
            obj.update({PhysicalQuantities.TEMPERATURE: "f", PhysicalQuantities.PRESSURE: "psi", PhysicalQuantities.ANGLE: "deg", PhysicalQuantities.SPEED: "kts"})
        HOSTILE_STATS["argument_containers_overwritten_after_construction"] += 1
    elif isinstance(obj, list):
        for v in obj:
            _overwrite_containers(v, depth + 1)
        obj.clear()
        obj.extend([127250, "vesselHeading", "garmin", 60928])
        HOSTILE_STATS["argument_containers_overwritten_after_construction"] += 1
    elif isinstance(obj, set):
        obj.clear()
    elif isinstance(obj, tuple):
        for v in obj:
            _overwrite_containers(v, depth + 1)


class _EmbeddingMeta(type):
    def __call__(cls, *a, **k):
        if not HOSTILE["embed"] or _EMBED["busy"]:
            return super().__call__(*a, **k)
        import copy as _copy
        import gc as _gc
        import pickle as _pickle
        _EMBED["busy"] = True
        try:
            _EMBED["n"] += 1
            n = _EMBED["n"]
            try:
                sib = _RealDecoder(*a, **k)
                sib.close()
                del sib
                HOSTILE_STATS["siblings_built_from_the_same_argument_objects"] += 1
            except Exception:  # noqa: BLE001  (arguments the constructor refuses: the real call below refuses them too)
                pass
            if n % 40 == 0:
                # (the youngest generation only - that is where a decoder dropped a moment ago lives; a full collection of a
                # large heap costs 0.2 s and is done a few times per process only)
                _gc.collect(0 if HOSTILE_STATS["garbage_collections_forced"] >= 8 else 2)
                HOSTILE_STATS["garbage_collections_forced"] += 1
            try:
                a2, k2 = _copy.deepcopy((a, k))
            except Exception:  # noqa: BLE001
                a2, k2 = a, k
            obj = super().__call__(*a2, **k2)
            if a2 is not a:
                _overwrite_containers(a2)
                _overwrite_containers(k2)
            if n % 3 == 0:
                # ... and another one from the same arguments while this decoder is alive (the old decoder of a reconnect that is
                # closed a moment after the new one was built): closed, dropped, collected
                try:
                    late = _RealDecoder(*_copy.deepcopy((a, k))[0], **_copy.deepcopy(k))
                    late.close()
                    del late
                    if n % 120 == 0:
                        _gc.collect(0)
                    HOSTILE_STATS["siblings_built_from_the_same_argument_objects"] += 1
                except Exception:  # noqa: BLE001
                    pass
            if n % 2 == 0 and getattr(obj, "dump_TextIOWrapper", 0) is None:
                try:
                    if n % 4 == 0:
                        obj = _copy.deepcopy(obj)
                        HOSTILE_STATS["decoders_handed_out_as_deepcopy"] += 1
                    else:
                        obj = _pickle.loads(_pickle.dumps(obj))
                        HOSTILE_STATS["decoders_handed_out_after_pickle_round_trip"] += 1
                except Exception:  # noqa: BLE001  (a decoder that cannot be copied is handed out as it is)
                    pass
            return obj
        finally:
            _EMBED["busy"] = False


class NMEA2000Decoder(_RealDecoder, metaclass=_EmbeddingMeta):          # noqa: F811  (deliberately replaces the name imported above)
    # an application subclass with value equality (one decoder per gateway name, say): every decoder the checks create is
    # equal to every other and hashes alike - whatever the library keys by a decoder must be keyed by the object
    def __eq__(self, other):
        return isinstance(other, _RealDecoder) if HOSTILE["embed"] else self is other

    def __hash__(self):
        return 7 if HOSTILE["embed"] else id(self) >> 4

    def decode_tcp(self, packet, *a, **k):
        return _hostile_call(self, _RealDecoder.decode_tcp, packet, a, k)

    def decode_usb(self, packet, *a, **k):
        return _hostile_call(self, _RealDecoder.decode_usb, packet, a, k)

    def decode_basic_string(self, s, *a, **k):
        return _hostile_call(self, _RealDecoder.decode_basic_string, s, a, k)

    def decode_actisense_string(self, s, *a, **k):
        return _hostile_call(self, _RealDecoder.decode_actisense_string, s, a, k)

    def decode_yacht_devices_string(self, s, *a, **k):
        return _hostile_call(self, _RealDecoder.decode_yacht_devices_string, s, a, k)


NMEA2000Decoder.__name__ = _RealDecoder.__name__
NMEA2000Decoder.__qualname__ = _RealDecoder.__qualname__


_RealEncoder = NMEA2000Encoder


class NMEA2000Encoder(_RealEncoder):          # noqa: F811
    """What the checks use as the encoder: an application subclass that keeps the public attribute `sequence_counter` in a
    property of its own (a counter persisted or shared by the application). The library's class works through the public
    name, so nothing changes for it; state it keeps behind that name's back would go stale."""

    @property
    def sequence_counter(self):
        return self.__dict__.get("_vf_sequence_counter", 0)

    @sequence_counter.setter
    def sequence_counter(self, value):
        self.__dict__["_vf_sequence_counter"] = value


NMEA2000Encoder.__name__ = _RealEncoder.__name__
NMEA2000Encoder.__qualname__ = _RealEncoder.__qualname__
