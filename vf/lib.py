"""Imports the library under test from the current working tree of the repository."""
import logging, os, sys

REPO = os.environ.get("VERIF_REPO", "/repo")
if sys.path[0] != REPO:
    sys.path.insert(0, REPO)

logging.disable(logging.CRITICAL)      # the library logs every packet; monitors do not read logs

import nmea2000                                   # noqa: E402
from nmea2000 import decoder as decoder_mod      # noqa: E402
from nmea2000 import encoder as encoder_mod      # noqa: E402
from nmea2000 import message as message_mod      # noqa: E402
from nmea2000 import utils as utils_mod          # noqa: E402
from nmea2000 import pgns as pgns_mod            # noqa: E402
from nmea2000 import consts as consts_mod        # noqa: E402
from nmea2000.decoder import NMEA2000Decoder     # noqa: E402
from nmea2000.encoder import NMEA2000Encoder     # noqa: E402
from nmea2000.message import NMEA2000Message, NMEA2000Field, IsoName  # noqa: E402
from nmea2000.consts import PhysicalQuantities, FieldTypes            # noqa: E402

assert os.path.realpath(nmea2000.__file__).startswith(os.path.realpath(REPO)), nmea2000.__file__
CANBOAT_JSON = os.path.join(REPO, "canboat.json")


import contextlib as _contextlib
import datetime as _dt


@_contextlib.contextmanager
def decoder_clock_advanced(seconds: float):
    """Inside the block the decoder module's clock (its `datetime.now()`) runs `seconds` ahead - the seam is the
    module attribute `datetime` that nmea2000.decoder imported; everything else in the process keeps real time."""
    real = decoder_mod.datetime

    class _Shifted(real):               # type: ignore[misc, valid-type]
        @classmethod
        def now(cls, tz=None):
            return real.now(tz) + _dt.timedelta(seconds=seconds)
    decoder_mod.datetime = _Shifted
    try:
        yield
    finally:
        decoder_mod.datetime = real


@_contextlib.contextmanager
def decoder_clock_box():
    """Like decoder_clock_advanced, but the offset can be moved while inside the block: box["offset"] seconds."""
    real = decoder_mod.datetime
    box = {"offset": 0.0}

    class _Shifted(real):               # type: ignore[misc, valid-type]
        @classmethod
        def now(cls, tz=None):
            return real.now(tz) + _dt.timedelta(seconds=box["offset"])
    decoder_mod.datetime = _Shifted
    try:
        yield box
    finally:
        decoder_mod.datetime = real
