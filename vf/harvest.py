"""Constants harvested at run time from the tree under test (the library's own source).

Fuzzers call this a dictionary: every integer and string literal in the hand-written modules (and the rare large ones in
the generated module) is a candidate value for whatever the workload generators produce - raw field values, addresses,
priorities, PGN numbers, NAME components, lengths and counts. A value that the code compares against explicitly is
exactly the value that random generation practically never produces.
"""
from __future__ import annotations

import ast
import os

from .lib import REPO

_CACHE: dict = {}
HAND_WRITTEN = ("decoder.py", "encoder.py", "message.py", "utils.py", "ioclient.py", "consts.py", "__init__.py")


_TREES: dict = {}


def _tree(path):
    if path not in _TREES:
        try:
            with open(path, encoding="utf-8") as fh:
                _TREES[path] = ast.parse(fh.read())
        except Exception:  # noqa: BLE001 - a file that does not parse is not ours to judge
            _TREES[path] = None
    return _TREES[path]


def preload():
    """Called once in the parent process before the shards are forked: the children inherit the result."""
    constants()
    generated_compare_constants()
    _TREES.clear()


def _fold(node, depth=0):
    """Value of an arithmetic expression made of integer literals only (256 * 1024, 1 << 20, 2 ** 16 - 1), else None."""
    if depth > 6:
        return None
    if isinstance(node, ast.Constant):
        return node.value if isinstance(node.value, int) and not isinstance(node.value, bool) else None
    if isinstance(node, ast.UnaryOp) and isinstance(node.op, ast.USub):
        v = _fold(node.operand, depth + 1)
        return None if v is None else -v
    if isinstance(node, ast.BinOp):
        a, b = _fold(node.left, depth + 1), _fold(node.right, depth + 1)
        if a is None or b is None:
            return None
        try:
            if isinstance(node.op, ast.Mult):
                v = a * b
            elif isinstance(node.op, ast.Add):
                v = a + b
            elif isinstance(node.op, ast.Sub):
                v = a - b
            elif isinstance(node.op, ast.LShift) and 0 <= b <= 64:
                v = a << b
            elif isinstance(node.op, ast.Pow) and 0 <= b <= 64 and abs(a) <= 1024:
                v = a ** b
            elif isinstance(node.op, ast.FloorDiv) and b:
                v = a // b
            else:
                return None
        except Exception:  # noqa: BLE001
            return None
        return v if abs(v) < 2 ** 64 else None
    return None


def _literals(path, min_int=None):
    ints, strs = set(), set()
    tree = _tree(path)
    if tree is None:
        return ints, strs
    for node in ast.walk(tree):
        if isinstance(node, ast.BinOp):
            v = _fold(node)
            if v is not None and (min_int is None or abs(v) >= min_int):
                ints.add(v)
        if isinstance(node, ast.Constant):
            v = node.value
            if isinstance(v, bool):
                continue
            if isinstance(v, int):
                if min_int is None or abs(v) >= min_int:
                    ints.add(v)
            elif isinstance(v, float) and v == int(v) and abs(v) < 2 ** 64:
                if min_int is None or abs(v) >= min_int:
                    ints.add(int(v))
            elif isinstance(v, (str, bytes)) and 0 < len(v) <= 64 and min_int is None:
                strs.add(v)
        elif isinstance(node, ast.UnaryOp) and isinstance(node.op, ast.USub) and isinstance(node.operand, ast.Constant) and isinstance(node.operand.value, int):
            ints.add(-node.operand.value)
    return ints, strs


def constants():
    """-> {"ints": sorted list, "strs": sorted list of str, "bytes": sorted list of bytes}"""
    if _CACHE:
        return _CACHE
    ints, strs = set(), set()
    base = os.path.join(REPO, "nmea2000")
    for fn in HAND_WRITTEN:
        i, s = _literals(os.path.join(base, fn))
        ints |= i
        strs |= s
    # the generated module: only what is not an everyday offset / width / small mask (its dispatch and match values are
    # covered from the database side)
    i, _ = _literals(os.path.join(base, "pgns.py"), min_int=1 << 20)
    ints |= set(sorted(i)[:400])
    ext = set()
    for v in ints:
        ext.update((v - 1, v, v + 1))
    _CACHE["ints"] = sorted(x for x in ext if -(2 ** 63) <= x < 2 ** 64)
    _CACHE["strs"] = sorted(x for x in strs if isinstance(x, str))
    _CACHE["bytes"] = sorted(x for x in strs if isinstance(x, bytes))
    return _CACHE


def ints_in(lo: int, hi: int):
    """Harvested integers v with lo <= v <= hi."""
    return [v for v in constants()["ints"] if lo <= v <= hi]


def generated_compare_constants():
    """{function name in the generated module: set of integer constants it compares something with} - in the generated
    code only the per-PGN dispatchers compare, and only with the database's match values; anything else is worth trying."""
    if "gen_cmp" in _CACHE:
        return _CACHE["gen_cmp"]
    out = {}
    tree = _tree(os.path.join(REPO, "nmea2000", "pgns.py"))
    for node in (tree.body if tree else []):
        if not isinstance(node, ast.FunctionDef):
            continue
        cs = set()
        def take(c):
            if isinstance(c, ast.Constant) and isinstance(c.value, int) and not isinstance(c.value, bool):
                cs.add(c.value)
            elif isinstance(c, (ast.Tuple, ast.List, ast.Set)):
                for e in c.elts:
                    take(e)
        for sub in ast.walk(node):
            if isinstance(sub, ast.Compare):             # the operands themselves, not the shifts and masks inside them
                for c in [sub.left] + sub.comparators:
                    take(c)
            elif isinstance(sub, ast.MatchValue):
                take(sub.value)
        if cs:
            out[node.name] = cs
    _CACHE["gen_cmp"] = out
    return out


def unexplained_constants(dbx):
    """-> list of (pgn, definition id or None, constant): constants compared inside generated functions of that PGN that
    the database does not explain (not a match value of any definition of the PGN)."""
    import re
    res = []
    for name, cs in generated_compare_constants().items():
        m = re.match(r"(?:decode|encode)_pgn_(\d+)(?:_(\w+))?$", name)
        if not m:
            continue
        pgn = int(m.group(1))
        ds = dbx.by_pgn.get(pgn, [])
        explained = {f.match for d in ds for f in d.match_fields}
        for c in sorted(cs - explained):
            res.append((pgn, m.group(2), c))
    return res
