"""Reference model: an independent interpreter of /repo/canboat.json.

Written from the database's own documentation strings (FieldTypes[*].Comment,
field attributes) and the property statements, not from python.PGNs.j2 or
utils.py.  All arithmetic is exact (fractions.Fraction).
"""
from __future__ import annotations

import json
import struct
from datetime import date, time, timedelta
from fractions import Fraction

from .lib import CANBOAT_JSON

UNSUPPORTED_TYPES = {"DECIMAL", "DYNAMIC_FIELD_KEY", "DYNAMIC_FIELD_LENGTH", "DYNAMIC_FIELD_VALUE",
                     "ISO_NAME", "VARIABLE", "FIELD_INDEX"}
NUMERIC_TYPES = {"NUMBER", "MMSI", "PGN", "DURATION", "TIME", "DATE"}
ENCODABLE_TYPES = {"NUMBER", "PGN", "RESERVED", "FLOAT", "LOOKUP", "DATE", "TIME", "DURATION"}


def frac(x) -> Fraction:
    return Fraction(str(x))


class Field:
    __slots__ = ("order", "db_id", "id", "name", "unit", "pq", "ftype", "pk", "off", "bits", "signed",
                 "res", "offset", "rmin", "rmax", "match", "lookup", "bitlookup", "indirect",
                 "indirect_order", "length_field", "variable", "description", "mask")

    def __init__(self, f: dict):
        self.order = f["Order"]
        self.db_id = f["Id"]
        self.ftype = f["FieldType"]
        self.off = f.get("BitOffset")
        self.bits = f.get("BitLength")
        # the library documents RESERVED fields as 'reserved_<bit offset>'
        if self.ftype == "RESERVED":
            self.id = "reserved_" + ("" if self.off is None else str(self.off))
        else:
            self.id = self.db_id
        self.name = f["Name"]
        self.description = f.get("Description")
        self.unit = f.get("Unit")
        self.pq = f.get("PhysicalQuantity")
        self.pk = bool(f.get("PartOfPrimaryKey", False))
        self.signed = bool(f.get("Signed", False))
        self.res = frac(f["Resolution"]) if "Resolution" in f else Fraction(1)
        self.offset = frac(f["Offset"]) if "Offset" in f else None
        self.rmin = frac(f["RangeMin"]) if "RangeMin" in f else None
        self.rmax = frac(f["RangeMax"]) if "RangeMax" in f else None
        self.match = f.get("Match")
        self.lookup = f.get("LookupEnumeration")
        self.bitlookup = f.get("LookupBitEnumeration")
        self.indirect = f.get("LookupIndirectEnumeration")
        self.indirect_order = f.get("LookupIndirectEnumerationFieldOrder")
        self.length_field = f.get("BitLengthField")
        self.variable = bool(f.get("BitLengthVariable", False))
        self.mask = ((1 << self.bits) - 1) if self.bits is not None else None

    # -- raw helpers -------------------------------------------------------
    def na_raw(self):
        """The 'not available' bit pattern (database FieldTypes comment for NUMBER)."""
        if self.bits is None:
            return None
        if self.signed:
            return (1 << (self.bits - 1)) - 1
        return (1 << self.bits) - 1

    def sign_extend(self, raw: int) -> int:
        if self.signed and raw & (1 << (self.bits - 1)):
            return raw - (1 << self.bits)
        return raw

    def to_unsigned(self, sraw: int) -> int:
        return sraw & self.mask

    def scaled(self, raw: int) -> Fraction:
        v = self.sign_extend(raw) * self.res
        if self.offset is not None:
            v += self.offset
        return v

    def in_range(self, raw: int) -> bool:
        """Exact test of the scaled value against the database RangeMin/RangeMax literals."""
        v = self.scaled(raw)
        if self.rmin is not None and v < self.rmin:
            return False
        if self.rmax is not None and v > self.rmax:
            return False
        return True

    def range_includes_na(self) -> bool:
        na = self.na_raw()
        return na is not None and self.ftype in NUMERIC_TYPES and self.in_range(na)

    def raw_bounds(self):
        """(lo, hi) of signed raw values that are exactly in the database range."""
        lo_s = -(1 << (self.bits - 1)) if self.signed else 0
        hi_s = (1 << (self.bits - 1)) - 1 if self.signed else (1 << self.bits) - 1
        off = self.offset or 0
        if self.rmin is not None:
            q = (self.rmin - off) / self.res
            lo = -((-q.numerator) // q.denominator)  # ceil
            lo_s = max(lo_s, lo)
        if self.rmax is not None:
            q = (self.rmax - off) / self.res
            hi = q.numerator // q.denominator       # floor
            hi_s = min(hi_s, hi)
        return lo_s, hi_s


class Definition:
    def __init__(self, p: dict, index: int):
        self.index = index
        self.pgn = p["PGN"]
        self.id = p["Id"]
        self.description = p["Description"]
        self.ttl_ms = p.get("TransmissionInterval")
        self.type = p["Type"]
        self.length = p.get("Length")
        self.min_length = p.get("MinLength")
        self.fallback = bool(p.get("Fallback", False))
        self.fields = [Field(f) for f in p["Fields"]]
        self.match_fields = [f for f in self.fields if f.match is not None]
        self.repeating = "RepeatingFieldSet1Size" in p
        self.fixed_layout = all(f.off is not None and f.bits is not None for f in self.fields)
        self.unsupported_field = next((f for f in self.fields if f.ftype in UNSUPPORTED_TYPES), None)
        self.supported = self.unsupported_field is None
        self.encodable = self.fixed_layout and all(f.ftype in ENCODABLE_TYPES for f in self.fields)
        self.multi = False          # set by Db
        self.func_suffix = str(self.pgn)

    @property
    def ttl(self):
        return timedelta(milliseconds=self.ttl_ms) if self.ttl_ms is not None else None

    def total_bits(self):
        if self.length is not None:
            return self.length * 8
        return max((f.off + f.bits) for f in self.fields if f.off is not None and f.bits is not None)

    def field_mask_union(self) -> int:
        m = 0
        for f in self.fields:
            if f.off is not None and f.bits is not None:
                m |= f.mask << f.off
        return m

    def __repr__(self):
        return f"<Def {self.pgn} {self.id}>"


class Db:
    def __init__(self, path: str = CANBOAT_JSON):
        with open(path) as fh:
            self.raw = json.load(fh)
        self.defs = [Definition(p, i) for i, p in enumerate(self.raw["PGNs"])]
        self.by_pgn: dict[int, list[Definition]] = {}
        for d in self.defs:
            self.by_pgn.setdefault(d.pgn, []).append(d)
        for pgn, ds in self.by_pgn.items():
            if len(ds) > 1 and any(d.match_fields for d in ds):
                for d in ds:
                    d.multi = True
                    d.func_suffix = f"{d.pgn}_{d.id}"
        self.by_id = {d.id: d for d in self.defs}
        self.lookups = {l["Name"]: {e["Value"]: e["Name"] for e in l["EnumValues"]}
                        for l in self.raw["LookupEnumerations"]}
        self.bitlookups = {l["Name"]: {e["Bit"]: e["Name"] for e in l["EnumBitValues"]}
                           for l in self.raw["LookupBitEnumerations"]}
        self.indirect = {l["Name"]: {(e["Value1"], e["Value2"]): e["Name"] for e in l["EnumValues"]}
                         for l in self.raw["LookupIndirectEnumerations"]}

    # -- dispatch (C08) ----------------------------------------------------
    def select(self, pgn: int, payload: int):
        """Definition prescribed for a payload: first non-fallback definition in database order whose
        match fields all equal the payload's bits; else the fallback; else None."""
        ds = self.by_pgn.get(pgn)
        if not ds:
            return None
        if len(ds) == 1:
            return ds[0]
        for d in ds:
            if d.fallback:
                continue
            if all(((payload >> f.off) & f.mask) == f.match for f in d.match_fields):
                return d
        for d in ds:
            if d.fallback:
                return d
        return None

    # -- unpack (C01) --------------------------------------------------------
    def unpack(self, d: Definition, payload: int):
        """Expected per-field results for a payload given as little-endian integer.
        Returns list of dicts {field, kind, raw, value, judged}."""
        out = []
        run = 0
        raws_by_order = {}
        for f in d.fields:
            if f.off is not None:
                run = f.off
            e = {"field": f, "kind": None, "raw": None, "value": None, "bit_at": run}
            t = f.ftype
            if t in UNSUPPORTED_TYPES:
                e["kind"] = "unsupported"
                out.append(e)
                break
            if t in ("STRING_LAU",):
                b = (payload >> run)
                ln = b & 0xFF
                typ = (b >> 8) & 0xFF
                body = bytes(((b >> (8 * i)) & 0xFF) for i in range(2, max(ln, 2)))
                e["kind"] = "str"
                e["lau"] = (ln, typ, body)
                try:
                    e["value"] = body.decode("utf-8") if typ else body.decode("utf-16")
                except UnicodeDecodeError:
                    e["value"] = None
                    e["undecodable"] = True
                e["raw"] = e["value"]
                run += 8 * ln
                out.append(e)
                continue
            if t == "STRING_LZ":
                b = (payload >> run)
                ln = b & 0xFF
                body = bytes(((b >> (8 * i)) & 0xFF) for i in range(1, 1 + ln))
                e["kind"] = "str"
                try:
                    e["value"] = body.decode("utf-8")
                except UnicodeDecodeError:
                    e["value"] = None
                    e["undecodable"] = True
                e["raw"] = e["value"]
                run += 8 * (ln + 2)
                out.append(e)
                continue
            bits = f.bits
            if bits is None and f.length_field is not None:
                bits = raws_by_order.get(f.length_field)
                e["len_from_field"] = True
                if bits is None:
                    e["kind"] = "skip"
                    out.append(e)
                    break
            if bits is None:
                e["kind"] = "skip"
                out.append(e)
                break
            raw = (payload >> run) & ((1 << bits) - 1)
            raws_by_order[f.order] = raw
            e["raw_int"] = raw
            if t in ("NUMBER", "MMSI", "PGN", "DURATION"):
                e["kind"] = "num"
                if raw == f.na_raw() and bits >= 2:
                    e["raw"] = e["value"] = None
                    e["na"] = True
                else:
                    e["raw"] = e["value"] = f.scaled(raw)
            elif t == "TIME":
                e["kind"] = "time"
                if raw == f.na_raw():
                    e["raw"] = e["value"] = None
                    e["na"] = True
                else:
                    s = f.scaled(raw)
                    e["raw"] = s
                    if 0 <= s < 86400:
                        si = int(s)
                        e["value"] = time(si // 3600, (si % 3600) // 60, si % 60)
                    else:
                        e["value"] = "unjudged"
            elif t == "DATE":
                e["kind"] = "date"
                if raw == f.na_raw():
                    e["raw"] = e["value"] = None
                    e["na"] = True
                else:
                    s = f.scaled(raw)
                    e["raw"] = s
                    e["value"] = date(1970, 1, 1) + timedelta(days=int(s))
            elif t == "LOOKUP":
                e["kind"] = "lookup"
                e["raw"] = raw
                e["value"] = self.lookups[f.lookup].get(raw)
            elif t == "BITLOOKUP":
                e["kind"] = "bitlookup"
                e["raw"] = raw
                tab = self.bitlookups[f.bitlookup]
                e["value"] = [tab[b] for b in range(bits) if (raw >> b) & 1 and b in tab]
            elif t == "INDIRECT_LOOKUP":
                e["kind"] = "indirect"
                e["raw"] = raw
                e["value"] = None   # resolved below
            elif t == "FLOAT":
                e["kind"] = "float"
                e["raw"] = e["value"] = struct.unpack("<f", struct.pack("<I", raw))[0]
            elif t in ("RESERVED", "SPARE"):
                e["kind"] = "int"
                e["raw"] = e["value"] = raw
            elif t == "BINARY":
                e["kind"] = "binary"
                e["raw"] = e["value"] = raw
            elif t == "STRING_FIX":
                e["kind"] = "strfix"
                e["bytes"] = raw.to_bytes((bits + 7) // 8, "little")
            else:
                e["kind"] = "unsupported"
                out.append(e)
                break
            run += bits
            out.append(e)
        # indirect lookups: meaning depends on the value of the referenced field
        for e in out:
            f = e["field"]
            if e["kind"] == "indirect":
                other = raws_by_order.get(f.indirect_order)
                e["value"] = self.indirect[f.indirect].get((other, e["raw"])) if other is not None else None
        return out

    # -- pack ---------------------------------------------------------------
    @staticmethod
    def pack(d: Definition, raws: dict, nbytes: int | None = None) -> int:
        """Payload integer from {field order: unsigned raw} for fixed-position fields."""
        p = 0
        for f in d.fields:
            if f.off is None or f.bits is None:
                continue
            p |= (raws.get(f.order, 0) & f.mask) << f.off
        return p


_DB = None


def db() -> Db:
    global _DB
    if _DB is None:
        _DB = Db()
    return _DB
