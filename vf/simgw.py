"""Simulated gateway + transport for the asyncio clients (only the transport is fake).

asyncio.open_connection / serial_asyncio.open_serial_connection are replaced (module attributes the
clients look up at call time) by coroutines that return a real StreamReader (instrumented subclass),
StreamReaderProtocol and StreamWriter over a SimTransport that follows _SelectorSocketTransport:
close() schedules connection_lost(None), writes after close are dropped, a failing write / reset is
delivered as connection_lost(exc), EOF as eof_received().
"""
from __future__ import annotations

import asyncio
import contextlib

import serial
import serial_asyncio

from . import vloop
from .lib import NMEA2000Decoder  # noqa: F401  (ensures /repo import path)
from nmea2000 import ioclient
from nmea2000.ioclient import (EByteNmea2000Gateway, ActisenseNmea2000Gateway, YachtDevicesNmea2000Gateway,
                               WaveShareNmea2000Gateway, State)

KINDS = ("ebyte", "actisense", "yd", "waveshare")
SPIN_LIMIT = 50


class SpinDetected(BaseException):
    """Raised inside the receive path to break a loop that never yields (loop-monopoly detector)."""


class MonitoredStreamReader(asyncio.StreamReader):
    def __init__(self, sim, conn_id, *a, **k):
        super().__init__(*a, **k)
        self._sim = sim
        self._conn_id = conn_id
        self._eof_step = -1
        self._eof_count = 0

    def _note(self, op, outcome):
        sim = self._sim
        sim.counters["reads"] += 1
        if outcome == "eof":
            step = sim.loop.steps
            if step == self._eof_step:
                self._eof_count += 1
            else:
                self._eof_step, self._eof_count = step, 1
            if self._eof_count > SPIN_LIMIT:
                sim.ev("loop_monopoly", conn=self._conn_id, op=op, reads_in_one_step=self._eof_count)
                raise SpinDetected(f"{op} returned end-of-stream {self._eof_count} times within one loop step")

    async def read(self, n=-1):
        self._sim.active_reader = self._conn_id
        sim = self._sim
        unit = getattr(sim, "lag_unit", None)
        if unit:
            # the client comes back for more: whatever it was handed before has had its chance to be processed. Bytes handed out
            # minus bytes accounted for by messages that left the receive path (queued or delivered) = what it is holding back
            try:
                done = sim.client.queue.qsize() + len(sim.received)
            except Exception:  # noqa: BLE001
                done = len(sim.received)
            lag = getattr(self, "_handed_out", 0) - unit * done
            if lag > getattr(sim, "lag_max", 0):
                sim.lag_max = lag
            sim.lag_samples = getattr(sim, "lag_samples", 0) + 1
        hook = getattr(sim, "on_read_hook", None)
        if hook is not None:
            hook(self)
        try:
            data = await super().read(n)
        except Exception as e:
            self._sim.ev("read_exc", conn=self._conn_id, op="read", exc=type(e).__name__)
            raise
        self._note("read", "eof" if data == b"" else "data")
        self._handed_out = getattr(self, "_handed_out", 0) + len(data)
        return data

    async def readline(self):
        self._sim.active_reader = self._conn_id
        try:
            data = await super().readline()
        except Exception as e:
            self._sim.ev("read_exc", conn=self._conn_id, op="readline", exc=type(e).__name__)
            raise
        self._note("readline", "eof" if data == b"" else "data")
        return data

    async def readexactly(self, n):
        self._sim.active_reader = self._conn_id
        try:
            data = await super().readexactly(n)
        except asyncio.IncompleteReadError:
            self._sim.ev("read_exc", conn=self._conn_id, op="readexactly", exc="IncompleteReadError")
            self._note("readexactly", "eof")
            raise
        except Exception as e:
            self._sim.ev("read_exc", conn=self._conn_id, op="readexactly", exc=type(e).__name__)
            raise
        self._note("readexactly", "data")
        return data


class SimTransport(asyncio.Transport):
    def __init__(self, sim, conn_id, serial_like=False):
        super().__init__()
        self.sim = sim
        self.id = conn_id
        self.serial_like = serial_like
        self.protocol = None
        self.closing = False
        self.lost = False
        self.written: list = []           # (step, bytes)
        self.reading_paused = False
        self._rx_queue: list = []
        self._write_paused = False
        self.fail_write_after = None       # fail the k-th next write (0 = next)
        self.fail_exc = None
        self.pause_plan: list = []          # per write: number of loop steps to keep writing paused (0 = no pause)
        self.eof_sent = False
        self.drain_fails = None            # fail the k-th next drain() without touching the read side
        self._held = []                    # (index into written, view of the caller's object) of writes the "socket" has not taken yet

    # --- asyncio.Transport API (what StreamWriter / StreamReaderProtocol use) ---------------
    def get_extra_info(self, name, default=None):
        return default

    def is_closing(self):
        return self.closing

    def close(self):
        if self.closing:
            return
        self.closing = True
        self.sim.ev("transport_close", conn=self.id)
        self.sim.loop.call_soon(self._connection_lost, None)

    def abort(self):
        self._force_close(None)

    def _force_close(self, exc):
        if self.lost:
            return
        if not self.closing:
            self.closing = True
            self.sim.ev("transport_close", conn=self.id, exc=type(exc).__name__ if exc else None)
        self.sim.loop.call_soon(self._connection_lost, exc)

    def _connection_lost(self, exc):
        if self.lost:
            return
        self.lost = True
        try:
            self.protocol.connection_lost(exc)
        finally:
            self.sim.ev("connection_lost", conn=self.id, exc=type(exc).__name__ if exc else None)

    def write(self, data):
        given = data
        data = bytes(data)
        if self.closing or self.lost:
            self.sim.ev("write_dropped", conn=self.id, n=len(data))
            return
        if self.fail_write_after is not None:
            if self.fail_write_after == 0:
                exc = self.fail_exc or ConnectionResetError("simulated write failure")
                self.fail_write_after = None
                self.sim.ev("write_failed", conn=self.id, n=len(data), exc=type(exc).__name__)
                self._force_close(exc)
                return
            self.fail_write_after -= 1
        self.written.append((self.sim.loop.steps, data))
        self.sim.ev("write", conn=self.id, data=data)
        steps = self.pause_plan.pop(0) if self.pause_plan else 0
        if steps < 0:
            # the socket takes nothing for |steps| loop steps although the transport's buffer stays below its high-water mark:
            # no pause_writing(), drain() returns at once, the data waits in the buffer
            if not self._holding:
                self._holding = True
                self.sim.loop.at_step(self.sim.loop.steps - steps, self._release_hold)
        if (steps > 0 or self._write_paused or self._holding) and type(given) is not bytes:
            # what the socket does not take at once stays in the transport's buffer BY REFERENCE (asyncio's selector transport
            # of Python 3.12 keeps a memoryview of the caller's object): the bytes that reach the wire are the ones that
            # object holds when the socket becomes writable again
            try:
                self._held.append((len(self.written) - 1, memoryview(given)))
            except TypeError:
                pass
        if steps > 0 and not self._write_paused:
            self._write_paused = True
            self.protocol.pause_writing()
            self.sim.loop.at_step(self.sim.loop.steps + steps, self._resume_writing)

    _held: list = []
    _holding = False

    def _release_hold(self):
        self._holding = False
        if not self._write_paused:
            self._flush_held()

    def _flush_held(self):
        held, self._held = self._held, []
        for idx, view in held:
            try:
                now = bytes(view)
            except Exception:  # noqa: BLE001  (a released buffer: nothing sensible reaches the wire)
                now = b""
            if now != self.written[idx][1]:
                self.sim.ev("buffered_write_changed_before_it_reached_the_wire", conn=self.id, was=self.written[idx][1], now=now)
                self.written[idx] = (self.written[idx][0], now)

    def _resume_writing(self):
        if not self._holding:
            self._flush_held()
        if self._write_paused:
            self._write_paused = False
            if not self.lost:
                self.protocol.resume_writing()

    def writelines(self, lines):
        self.write(b"".join(lines))

    def can_write_eof(self):
        return not self.serial_like

    def write_eof(self):
        pass

    def get_write_buffer_size(self):
        return 0

    def get_write_buffer_limits(self):
        return (0, 65536)

    def set_write_buffer_limits(self, high=None, low=None):
        pass

    def pause_reading(self):
        self.reading_paused = True

    def resume_reading(self):
        self.reading_paused = False
        q, self._rx_queue = self._rx_queue, []
        for item in q:
            self._deliver(item)

    def is_reading(self):
        return not self.reading_paused and not self.closing

    # --- the gateway side ------------------------------------------------------------------
    def _deliver(self, item):
        if self.lost or self.closing or self.eof_sent:
            return                      # nothing can arrive after the peer's FIN / on a dead connection
        if self.reading_paused:
            self._rx_queue.append(item)
            return
        if item is None:
            self.eof_sent = True
            keep_open = self.protocol.eof_received()
            if not keep_open:
                self.close()
        else:
            self.protocol.data_received(item)

    def feed(self, data: bytes):
        self.sim.ev("feed", conn=self.id, n=len(data))
        self._deliver(bytes(data))

    def feed_eof(self):
        self.sim.ev("feed_eof", conn=self.id)
        self._deliver(None)

    def reset(self, exc=None):
        exc = exc or ConnectionResetError("simulated reset by peer")
        self.sim.ev("reset", conn=self.id, exc=type(exc).__name__)
        self._force_close(exc)


class SimStreamWriter(asyncio.StreamWriter):
    """asyncio's StreamWriter plus one extra, explicitly requested fault: drain() fails although the read side of
    the link stays silent (what the client observes when only the write direction of a link breaks)."""

    async def drain(self):
        tr = self._transport
        if getattr(tr, "drain_fails", None) is not None:
            if tr.drain_fails == 0:
                tr.drain_fails = None
                tr.sim.ev("drain_failed", conn=tr.id)
                raise ConnectionResetError("simulated: write direction broken, read direction silent")
            tr.drain_fails -= 1
        await super().drain()


import contextvars as _cv

_OWNER = _cv.ContextVar("vf_sim_owner", default="main")


class _Quiet:
    """What the bystander's transport sees instead of the Sim: same loop, no trace."""

    def __init__(self, sim):
        self.loop = sim.loop

    def ev(self, *a, **k):
        pass


class Sim:
    """One simulated world: loop + gateway + one client + trace. Optionally a second, untouched client of the same
    type lives in the same process and loop (the bystander): whatever happens to the first one, the bystander must
    stay connected on its own link and receive exactly what its gateway sends."""

    def __init__(self, loop: vloop.VirtualLoop, kind: str, client_kwargs=None, status_cb="ok", recv_cb="ok", bystander=False, cb_style="method", subclass=None):
        from collections import Counter
        self.subclass = subclass          # callable(library client class) -> the application's subclass of it to instantiate
        self.cb_style = cb_style
        self.with_bystander = bystander
        self.by_client = None
        self.by_conns: list = []
        self.by_received: list = []
        self.by_status: list = []
        self.bystander = None
        self.loop = loop
        self.kind = kind
        self.trace: list = []
        self.counters = Counter()
        self.conns: list[SimTransport] = []
        self.attempts: list = []           # dicts: start step/time, outcome, end time
        self.connect_script: list = []     # per attempt: ("refuse", exc, delay) | ("accept", delay) | ("hang",)
        self.on_accept: list = []          # callables(conn) run right after a connection is handed to the client
        self.active_reader = None
        self.received: list = []
        self.status: list = []
        self.recv_after_close_returned = 0
        self.closing_from_callback = False
        self.close_hung = False
        self.sends_from_status_callback = 0
        self._reply_msg = None
        self.replies_sent = 0
        self.callbacks_replaced = False
        self.old_cb_calls_after_replacement = 0
        self.new_status_cb_calls = 0
        self.new_recv_cb_calls = 0
        self.on_close_return = []
        self.close_returned = False
        self.heartbeat_ticks = 0
        self.status_cb_mode = status_cb
        self.recv_cb_mode = recv_cb
        self.recv_cb_calls = 0
        self.client = None
        self._last_state = None
        self.state_changes: list = []
        self.client_kwargs = client_kwargs or {}

    def ev(self, kind, **kw):
        self.trace.append({"k": kind, "s": self.loop.steps, "t": round(self.loop.time() - 1000.0, 6), **kw})

    # --- client + callbacks --------------------------------------------------------------------
    def make_client(self):
        kw = self.client_kwargs
        sub = self.subclass or (lambda cls_: cls_)
        if self.kind == "ebyte":
            c = sub(EByteNmea2000Gateway)("sim-gateway", 8881, **kw)
        elif self.kind == "actisense":
            c = sub(ActisenseNmea2000Gateway)("sim-gateway", 8881, **kw)
        elif self.kind == "yd":
            c = sub(YachtDevicesNmea2000Gateway)("sim-gateway", 8881, **kw)
        else:
            c = sub(WaveShareNmea2000Gateway)("/dev/sim-serial", **kw)
        self.client = c
        c.set_receive_callback(self._styled(self._on_receive))
        c.set_status_callback(self._styled(self._on_status))
        if self.with_bystander:
            if self.kind == "ebyte":
                b = EByteNmea2000Gateway("sim-gateway-2", 8882)
            elif self.kind == "actisense":
                b = ActisenseNmea2000Gateway("sim-gateway-2", 8882)
            elif self.kind == "yd":
                b = YachtDevicesNmea2000Gateway("sim-gateway-2", 8882)
            else:
                b = WaveShareNmea2000Gateway("/dev/sim-serial-2")
            self.by_client = b

            async def by_recv(msg):
                self.by_received.append(msg.source)

            async def by_status(state):
                self.by_status.append(state.name)
            b.set_receive_callback(by_recv)
            b.set_status_callback(by_status)
            # ... and a third client of the same type whose gateway is down: it stays inside connect(), between retries, for the
            # whole session (its own business: every client has a connection life of its own)
            if self.kind == "ebyte":
                self.down_client = EByteNmea2000Gateway("sim-gateway-down", 8883)
            elif self.kind == "actisense":
                self.down_client = ActisenseNmea2000Gateway("sim-gateway-down", 8883)
            elif self.kind == "yd":
                self.down_client = YachtDevicesNmea2000Gateway("sim-gateway-down", 8883)
            else:
                self.down_client = WaveShareNmea2000Gateway("/dev/sim-serial-down")
        self.loop.step_observers.append(self._sample_state)
        self._sample_state(self.loop)
        return c

    def _styled(self, fn):
        """The same async callback in the shapes an application may legally hand over: a bound coroutine method, an
        object with an async __call__, a plain function returning the coroutine, a functools.partial."""
        if self.cb_style == "object":
            class _Callable:
                def __init__(self, f):
                    self.f = f

                async def __call__(self, x):
                    return await self.f(x)
            return _Callable(fn)
        if self.cb_style == "lambda":
            return lambda x: fn(x)
        if self.cb_style == "partial":
            import functools
            return functools.partial(fn)
        if self.cb_style == "orphan-method":
            # a bound method of an object that nothing else refers to: client.set_receive_callback(Handler(db).on_message).
            # The registration is what keeps the handler alive.
            import gc

            class _Handler:
                def __init__(self, f):
                    self.f = f

                async def on_event(self, x):
                    return await self.f(x)
            bound = _Handler(fn).on_event
            gc.collect()
            return bound
        return fn

    def _sample_state(self, _loop):
        st = self.client.state
        if st is not self._last_state:
            self._last_state = st
            self.state_changes.append((self.loop.steps, st.name))
            self.ev("state_sample", state=st.name)

    def replace_callbacks(self):
        """The application registers new callbacks mid-session: from now on only they may be called."""
        self.callbacks_replaced = True

        async def status_b(state):
            self.new_status_cb_calls += 1
            await self._on_status(state, _new=True)

        async def recv_b(msg):
            self.new_recv_cb_calls += 1
            await self._on_receive(msg, _new=True)
        self.client.set_status_callback(self._styled(status_b))
        self.client.set_receive_callback(self._styled(recv_b))

    status_cb_active = 0

    async def _on_status(self, state, _new=False):
        self.status_cb_active += 1
        try:
            return await self._on_status_body(state, _new)
        finally:
            self.status_cb_active -= 1

    async def _on_status_body(self, state, _new=False):
        if self.callbacks_replaced and not _new:
            self.old_cb_calls_after_replacement += 1
        self.status.append(state.name)
        self.ev("status", state=state.name)
        if self.status_cb_mode == "raise":
            raise RuntimeError("status callback failure (injected)")
        if self.status_cb_mode == "raise_on_disconnected" and state.name == "DISCONNECTED":
            raise RuntimeError("status callback failure for one state only (injected)")
        if self.status_cb_mode == "raise_on_connected" and state.name == "CONNECTED" and self.status.count("CONNECTED") % 2 == 1:
            raise RuntimeError("status callback failure for every other CONNECTED (injected)")
        if self.status_cb_mode == "slow":
            await asyncio.sleep(0.05)
        if self.status_cb_mode == "slow_connected" and state.name == "CONNECTED":
            await asyncio.sleep(0.3)          # only the CONNECTED notification suspends (others return at once)
        if self.status_cb_mode == "slow_disconnected" and state.name == "DISCONNECTED":
            await asyncio.sleep(0.3)
        if self.status_cb_mode == "slow_closed" and state.name == "CLOSED":
            await asyncio.sleep(0.3)
        if self.status_cb_mode == "send_on_connected" and state.name == "CONNECTED":
            # the application greets the gateway from inside the status callback (a request sent on every CONNECTED)
            from .checks.c13 import make_send_message
            self.sends_from_status_callback += 1
            await self.client.send(make_send_message(self.kind))
        if self.status_cb_mode == "send_on_disconnected" and state.name == "DISCONNECTED":
            # the application reacts to the loss by sending something from inside the status callback (it will fail,
            # quietly; what matters is that the client does not wait for itself)
            from .checks.c13 import make_send_message
            self.sends_from_status_callback += 1
            if self.sends_from_status_callback <= 3:
                await self.client.send(make_send_message(self.kind))
        if self.status_cb_mode == "close_on_disconnected" and state.name == "DISCONNECTED" and not self.closing_from_callback:
            # the application gives up at the first loss: it calls close() from inside the status callback
            self.closing_from_callback = True
            await self.call("close")

    async def _on_receive(self, msg, _new=False):
        if self.callbacks_replaced and not _new:
            self.old_cb_calls_after_replacement += 1
        self.recv_cb_calls += 1
        if self.close_returned:
            self.recv_after_close_returned += 1
        self.received.append(msg)
        self.ev("recv", pgn=msg.PGN, src=msg.source, conn=self.active_reader)
        mode = self.recv_cb_mode
        if mode == "raise" or (mode == "raise_some" and self.recv_cb_calls % 3 == 0):
            raise RuntimeError("receive callback failure (injected)")
        if mode == "slow":
            await asyncio.sleep(0.02)
        if mode == "reply":
            # the application answers from inside its receive callback (re-entrancy: callback -> client.send)
            from .checks.c13 import make_send_message
            if self._reply_msg is None:
                self._reply_msg = make_send_message(self.kind)
            self.replies_sent += 1
            await self.client.send(self._reply_msg)

    async def heartbeat(self):
        while True:
            await asyncio.sleep(0.1)
            self.heartbeat_ticks += 1

    # --- instrumented application calls -----------------------------------------------------------
    async def call(self, name, *args):
        self.ev("call", name=name)
        try:
            r = await getattr(self.client, name)(*args)
            self.ev("ret", name=name)
            if name == "close":
                self.close_returned = True
                for fn in list(self.on_close_return):
                    fn()
            return r
        except BaseException as e:  # noqa: BLE001
            self.ev("ret", name=name, exc=type(e).__name__)
            if name == "close":
                self.close_returned = True
            raise

    async def close_guarded(self, timeout=120.0):
        """close() at the end of a session, with a virtual-time limit: a close() that never returns (waiting for a lock
        held by a task that waits for it) is recorded, not allowed to eat the session's step budget."""
        try:
            await asyncio.wait_for(self.call("close"), timeout)
        except asyncio.TimeoutError:
            self.close_hung = True
            self.ev("close_hung")

    def spawn(self, name, *args):
        return self.loop.create_task(self._guarded(name, *args))

    async def _guarded(self, name, *args):
        with contextlib.suppress(Exception, asyncio.CancelledError):
            await self.call(name, *args)

    # --- the patched connection factories -----------------------------------------------------------
    async def _by_connect(self):
        _OWNER.set("bystander")
        with contextlib.suppress(Exception):
            await self.by_client.connect()

    down_client = None
    down_attempts = 0

    async def _down_connect(self):
        _OWNER.set("down")
        with contextlib.suppress(Exception):
            await self.down_client.connect()

    async def bystander_epilogue(self):
        from .checks.c13 import packet
        if self.down_client is not None:
            with contextlib.suppress(Exception):
                await self.down_client.close()
        if self.by_conns and not self.by_conns[-1].lost and not self.by_conns[-1].closing:
            self.by_conns[-1].feed(packet(self.kind, 241))
        await asyncio.sleep(0.5)
        self.bystander = {"received_sources": list(self.by_received), "status": list(self.by_status), "state": self.by_client.state.name,
                          "connections": len(self.by_conns), "link_open": bool(self.by_conns) and not self.by_conns[-1].lost and not self.by_conns[-1].closing}
        with contextlib.suppress(Exception):
            await self.by_client.close()
        await asyncio.sleep(0.1)

    async def _open(self, serial_like):
        loop = self.loop
        if _OWNER.get() == "down":
            self.down_attempts += 1
            await asyncio.sleep(0.001)
            raise (serial.SerialException("could not open port /dev/sim-serial-down") if serial_like else ConnectionRefusedError(111, "Connection refused"))
        if _OWNER.get() == "bystander":
            from .checks.c13 import packet
            await asyncio.sleep(0.001)
            q = _Quiet(self)
            cid = 1000 + len(self.by_conns)
            reader = asyncio.StreamReader(limit=2 ** 16, loop=loop)
            protocol = asyncio.StreamReaderProtocol(reader, loop=loop)
            tr = SimTransport(q, cid, serial_like)
            tr.protocol = protocol
            protocol.connection_made(tr)
            writer = SimStreamWriter(tr, protocol, reader, loop)
            self.by_conns.append(tr)
            loop.call_later(0.05, lambda: (not tr.lost and not tr.closing) and tr.feed(packet(self.kind, 240)))
            return reader, writer
        att = {"start_step": loop.steps, "start": loop.time() - 1000.0, "outcome": None, "end": None}
        self.attempts.append(att)
        self.ev("attempt", n=len(self.attempts))
        action = self.connect_script.pop(0) if self.connect_script else ("accept", 0.001)
        try:
            if action[0] == "refuse":
                _, exc, delay = action
                await asyncio.sleep(delay)
                att["outcome"] = "refused:" + type(exc).__name__
                raise exc
            if action[0] == "hang":
                att["outcome"] = "hang"
                await asyncio.sleep(1e9)
            await asyncio.sleep(action[1])
        finally:
            att["end"] = loop.time() - 1000.0
            att["end_step"] = loop.steps
            if att["outcome"] is None:
                att["outcome"] = "cancelled"
            self.ev("attempt_end", n=len(self.attempts), outcome=att["outcome"])
        cid = len(self.conns)
        reader = MonitoredStreamReader(self, cid, limit=2 ** 16, loop=loop)
        protocol = asyncio.StreamReaderProtocol(reader, loop=loop)
        tr = SimTransport(self, cid, serial_like)
        tr.protocol = protocol
        protocol.connection_made(tr)
        writer = SimStreamWriter(tr, protocol, reader, loop)
        self.conns.append(tr)
        att["outcome"] = "accepted"
        att["conn"] = cid
        self.trace[-1]["outcome"] = "accepted"
        self.ev("accepted", conn=cid)
        for fn in list(self.on_accept):
            fn(tr)
        return reader, writer

    async def open_connection(self, host=None, port=None, **kw):
        return await self._open(False)

    async def open_serial_connection(self, **kw):
        return await self._open(True)

    @contextlib.contextmanager
    def patched(self):
        o1, o2 = asyncio.open_connection, serial_asyncio.open_serial_connection
        asyncio.open_connection = self.open_connection
        serial_asyncio.open_serial_connection = self.open_serial_connection
        try:
            yield
        finally:
            asyncio.open_connection, serial_asyncio.open_serial_connection = o1, o2

    # --- end-of-run census ---------------------------------------------------------------------------
    def pending_client_tasks(self, exclude=()):
        out = []
        for t in asyncio.all_tasks(self.loop):
            if t.done() or t in exclude:
                continue
            try:
                if t.get_context().get(_OWNER) in ("down", "bystander"):
                    continue            # tasks of the other clients of the process: their own business
            except Exception:  # noqa: BLE001
                pass
            out.append(t)
        return out

    def gateway_bytes(self, conn=None):
        return b"".join(d for c in self.conns if conn is None or c.id == conn for _, d in c.written)


def serial_loss_exception():
    return serial.SerialException("device reports readiness to read but returned no data (device disconnected?)")


_LOSS_NO = [0]
LOSS_CLASSES_SEEN = {}


def link_loss(kind, write=False):
    """The error a lost link shows as - by turns every class the operating system / pyserial reports one with (a client
    that reacts to 'an exception' reacts to all of them: reset by peer, broken pipe, ETIMEDOUT after keep-alives ran out,
    host / network unreachable, aborted; for the serial port pyserial's SerialException in its two spellings and a bare EIO)."""
    _LOSS_NO[0] += 1
    n = _LOSS_NO[0]
    if kind == "waveshare":
        e = [serial_loss_exception(), serial.SerialException("read failed: [Errno 5] Input/output error"), serial_loss_exception(),
             serial.SerialException("write failed: [Errno 5] Input/output error") if write else OSError(5, "Input/output error")][n % 4]
    else:
        first = BrokenPipeError(32, "Broken pipe") if write else ConnectionResetError(104, "Connection reset by peer")
        e = [first, TimeoutError(110, "Connection timed out"), first, ConnectionAbortedError(103, "Software caused connection abort"),
             first, OSError(113, "No route to host"), ConnectionResetError(104, "Connection reset by peer"), OSError(101, "Network is unreachable")][n % 8]
    LOSS_CLASSES_SEEN[type(e).__name__ + (":" + str(e.errno) if getattr(e, "errno", None) else "")] = LOSS_CLASSES_SEEN.get(type(e).__name__, 0) + 1
    return e


def stalled(stats, acc, w, what=""):
    """A session in which one loop iteration did not return for vloop.STALL_SECONDS of wall clock: the client code
    monopolised the event loop. Returns True when that was the case (and has been reported)."""
    if stats.get("error") == "loop-step-stalled":
        acc.violation("event-loop-monopolised", f"{what}: one event-loop iteration did not finish within {vloop.STALL_SECONDS:.0f} s of wall clock "
                      f"(code running in it was interrupted): other tasks could not run", w)
        return True
    return False


def judge_bystander(sim, acc, w):
    """The untouched second client: connected once, on one link that is still open, both of its frames delivered."""
    b = getattr(sim, "bystander", None)
    if b is None:
        return
    acc.count("bystander_clients_checked")
    if b["received_sources"] != [240, 241] or b["status"] != ["CONNECTED"] or b["state"] != "CONNECTED" or b["connections"] != 1 or not b["link_open"]:
        acc.violation("bystander-client-disturbed", f"a second, untouched client in the same process: received {b['received_sources']} (sent 240, 241), status {b['status']}, "
                      f"state {b['state']}, {b['connections']} connection(s), link open: {b['link_open']}", dict(w, bystander=b))


def run_session(kind, scenario, client_kwargs=None, status_cb="ok", recv_cb="ok", max_steps=100_000, bystander=False, cb_style="method", subclass=None):
    """scenario: async def scenario(sim) run inside the virtual loop with the factories patched.
    Returns (sim, stats)."""
    box = {}

    async def main(loop):
        sim = Sim(loop, kind, client_kwargs, status_cb, recv_cb, bystander, cb_style, subclass)
        box["sim"] = sim
        with sim.patched():
            sim.make_client()
            hb = loop.create_task(sim.heartbeat())
            box["hb"] = hb
            if bystander:
                loop.create_task(sim._by_connect())
                if sim.down_client is not None:
                    loop.create_task(sim._down_connect())
            try:
                await scenario(sim)
                if bystander:
                    await sim.bystander_epilogue()
            finally:
                box["pending"] = [t for t in sim.pending_client_tasks(exclude=(hb, asyncio.current_task()))]
                box["pending_names"] = [repr(t.get_coro())[:120] for t in box["pending"]]
                hb.cancel()
        return True

    _, stats = vloop.run(main, max_steps=max_steps)
    sim = box.get("sim")
    if sim is not None and sim.close_hung and not stats["error"]:
        stats["error"] = "close-never-returned"
    if sim is not None:
        sim.pending_at_end = box.get("pending_names", [])
    return sim, stats


# ---------------------------------------------------------------------------
# C06: stream clause - concatenated encoder packets re-cut by the real client receive path
# ---------------------------------------------------------------------------

def c06_stream_clause(spec, acc):
    from . import refdb, gen, wire, project
    from .lib import NMEA2000Encoder
    dbx = refdb.db()
    rng = gen.rng_for(spec["seed"], "C06", spec["name"])
    quick = spec["tier"] == "quick"
    kind = {"ebyte": "ebyte", "yd": "yd", "usb": "waveshare"}[spec["client"]]
    src_dec = NMEA2000Decoder()
    defs = [d for d in dbx.defs if d.encodable and d.type in ("Single", "Fast")]
    defs.sort(key=lambda d: (d.length if d.length is not None else 99, d.index))
    for rep in range(12 if quick else 600):
        enc = NMEA2000Encoder()
        msgs = []
        packets = []
        spans = []
        picks = defs[:12] if rep == 0 else rng.sample(defs, 10)
        for d in picks:
            nb = d.length if d.length is not None else (d.total_bits() + 7) // 8
            payload = dbx.pack(d, gen.base_raws(d, rng, dbx))
            if dbx.select(d.pgn, payload) is not d:
                continue
            try:
                m = src_dec.decode_basic_string(wire.plain_line(3, d.pgn, rng.randrange(1, 250), 255, payload.to_bytes(nb, "little")), already_combined=True)
                if m is None:
                    continue
                m.source, m.destination, m.priority = rng.randrange(1, 250), 255, rng.randrange(8)
                pk = {"ebyte": enc.encode_ebyte, "yd": enc.encode_yacht_devices, "usb": enc.encode_usb}[spec["client"]](m)
                codec = bytes.fromhex((enc.encode_actisense(m).split() + [""])[2])
                exp = src_dec.decode_basic_string(wire.plain_line(m.priority, d.pgn, m.source, 255, codec), already_combined=True)
            except Exception:  # noqa: BLE001
                continue
            if spec["client"] == "yd":
                pk = [b"00:00:00.000 R " + p for p in pk]
            if spec["client"] == "usb" and any(b"\xaa\x55" in p[2:] for p in pk):
                continue          # a marker inside a packet body is a C20 matter
            msgs.append(exp)
            spans.append((len(packets), len(pk)))
            packets.extend(pk)
        # messages whose payload happens to spell a byte string that the code under test mentions literally (a gateway
        # notice, a marker): data is data - such a packet is cut out and delivered like any other
        if rep % 2 == 0:
            lits = [b for b in gen.harvested_byte_strings() if 3 <= len(b) <= 8]
            # every byte literal (and prefix) in every such session; of the many text literals (names of lookup values mostly) a sample
            first_ = [b for b in gen.harvested_byte_literals(3, 8)]
            single = [d for d in defs if d.type == "Single" and (d.length or 9) <= 8 and d.fixed_layout]
            others_ = [b for b in lits if b not in first_]
            for lit in first_ + rng.sample(others_, min(len(others_), 4)):
                for attempt in range(40):
                    d = rng.choice(single)
                    off = rng.randrange(0, d.length - len(lit) + 1) if d.length >= len(lit) else None
                    if off is None:
                        continue
                    pb_ = bytearray(dbx.pack(d, gen.base_raws(d, rng, dbx)).to_bytes(d.length, "little"))
                    pb_[off:off + len(lit)] = lit if (attempt < 30 or lit in others_) and attempt % 7 != 6 else lit[::-1]
                    if spec["client"] == "usb" and b"\xaa\x55" in bytes(pb_):
                        continue
                    if dbx.select(d.pgn, int.from_bytes(pb_, "little")) is not d:
                        continue
                    try:
                        m = src_dec.decode_basic_string(wire.plain_line(3, d.pgn, 7, 255, bytes(pb_)), already_combined=True)
                        if m is None:
                            continue
                        m.source, m.destination, m.priority = rng.randrange(1, 250), 255, rng.randrange(8)
                        pk = {"ebyte": enc.encode_ebyte, "yd": enc.encode_yacht_devices, "usb": enc.encode_usb}[spec["client"]](m)
                        codec = bytes.fromhex((enc.encode_actisense(m).split() + [""])[2])
                        if lit not in codec and lit[::-1] not in codec:
                            continue
                        exp = src_dec.decode_basic_string(wire.plain_line(m.priority, d.pgn, m.source, 255, codec), already_combined=True)
                    except Exception:  # noqa: BLE001
                        continue
                    if spec["client"] == "yd":
                        pk = [b"00:00:00.000 R " + p for p in pk]
                    if spec["client"] == "usb" and any(b"\xaa\x55" in p[2:] for p in pk):
                        continue
                    at = rng.randrange(len(msgs) + 1)
                    pos_ = sum(spans[j][1] for j in range(at)) if at < len(spans) else len(packets)
                    msgs.insert(at, exp)
                    spans.insert(at, (pos_, len(pk)))
                    packets[pos_:pos_] = pk
                    spans[:] = [(sum(n_ for _, n_ in spans[:j]), n_) for j, (_, n_) in enumerate(spans)]
                    acc.count("stream_messages_spelling_a_harvested_literal")
                    break
        stream = b"".join(packets)
        cuts = sorted(rng.sample(range(1, max(2, len(stream))), min(len(stream) - 1, rng.choice([0, 1, 5, 20])))) if len(stream) > 2 else []
        if rep % 3 == 1:
            # a read boundary one byte into every packet (inside the AA|55 marker / the type byte / the first digit)
            pos, cuts = 0, []
            for p_ in packets[:-1]:
                pos += len(p_)
                cuts.append(pos + 1)
        cut_plans = [cuts]
        if rep == 0:
            cut_plans += [[c] for c in range(1, min(len(stream), 400))]        # a single cut at every offset

        # the link is lost after the first bytes of a (single-packet) message; the gateway goes on with the next packet
        # on the connection the client opens next: every other message must still be cut out of the two streams
        singles = [j for j, (st_, n_) in enumerate(spans) if n_ == 1 and 0 < j < len(spans) - 1]
        if singles and rep % 2 == 1:
            j = rng.choice(singles)
            start = sum(len(p_) for p_ in packets[:spans[j][0]])
            plen = len(packets[spans[j][0]])
            lost_at = start + rng.randint(1, plen - 1)

            async def scenario2(sim):
                sim.spawn("connect")
                await asyncio.sleep(0.1)
                conn = sim.conns[0]
                conn.feed(stream[:lost_at])
                await asyncio.sleep(0.2)
                conn.reset(link_loss(kind))
                for _ in range(6000):
                    if len(sim.conns) > 1 and sim.client.state.name == "CONNECTED":
                        break
                    await asyncio.sleep(0.01)
                await asyncio.sleep(0.1)
                if len(sim.conns) > 1:
                    sim.conns[-1].feed(stream[start + plen:])
                await asyncio.sleep(0.5)
                await sim.close_guarded()
            sim, stats = run_session(kind, scenario2)
            acc.count("stream_sessions")
            acc.count("stream_sessions_across_a_reconnect")
            got = [project.msg_proj(m, with_iso=False, with_hash=False) for m in sim.received]
            want = [project.msg_proj(m, with_iso=False, with_hash=False) for k_, m in enumerate(msgs) if k_ != j]
            if stats["error"]:
                acc.inconclusive_because(f"simulator: {stats['error']}")
            elif len(sim.conns) < 2:
                acc.count("second_connection_not_opened")
            elif got != want:
                acc.violation("packet-stream-recut-differently:across-reconnect", f"{spec['client']}: link lost {lost_at - start} bytes into a packet, rest of the stream on the next "
                              f"connection: {len(want)} messages expected, {len(got)} delivered",
                              {"client": spec["client"], "stream_hex": stream.hex()[:2000], "lost_at": lost_at, "resumed_at": start + plen})
            else:
                acc.count("stream_messages_delivered", len(got))

        for cuts in cut_plans:
            async def scenario(sim, cuts=cuts):
                sim.spawn("connect")
                await asyncio.sleep(0.1)
                conn = sim.conns[0]
                pos = 0
                for c in cuts + [len(stream)]:
                    conn.feed(stream[pos:c])
                    pos = c
                    await asyncio.sleep(0.001)
                await asyncio.sleep(0.5)
                await sim.close_guarded()
            sim, stats = run_session(kind, scenario)
            acc.count("stream_sessions")
            acc.case(("stream", spec["client"], stream, tuple(cuts)))
            got = [project.msg_proj(m, with_iso=False, with_hash=False) for m in sim.received]
            want = [project.msg_proj(m, with_iso=False, with_hash=False) for m in msgs]
            if stats["error"]:
                acc.inconclusive_because(f"simulator: {stats['error']}")
            elif got != want:
                acc.violation("packet-stream-recut-differently", f"{spec['client']}: {len(msgs)} messages encoded, {len(got)} delivered by the receive path"
                              + ("" if len(got) != len(want) else " (content differs)"),
                              {"client": spec["client"], "stream_hex": stream.hex()[:2000], "cuts": cuts[:40]})
            else:
                acc.count("stream_messages_delivered", len(got))
