"""Shard runner, accumulator, verdict logic.

A check module provides
    ID, LEVEL, RULE, ASSUMPTIONS (list[str])
    shards(tier, seed) -> list[dict]          JSON-able shard specs
    run_shard(spec, acc)                      executes the real code, feeds `acc`
    replay(witness, acc)  (optional)          re-runs one recorded case
Shards run in forked children (the parent has already imported /repo's
nmea2000, so a fork costs nothing); every child has a wall-clock watchdog whose
firing makes the run INCONCLUSIVE, never a violation.
"""
from __future__ import annotations

import hashlib
import json
import os
import signal
import sys
import time
import traceback
import faulthandler
from array import array
from collections import Counter, defaultdict

from . import findings, evidence

VERIF_DIR = os.path.dirname(os.path.dirname(os.path.abspath(__file__)))
SCRATCH = os.path.join(VERIF_DIR, ".scratch")
NCPU = int(os.environ.get("VERIF_JOBS", "0")) or min(16, os.cpu_count() or 4)
HASH_CAP = 250_000          # per shard cap of distinct non-trivial hashes kept
MAX_WITNESS_PER_KEY = 3


def h64(obj) -> int:
    if not isinstance(obj, (bytes, bytearray)):
        obj = repr(obj).encode()
    return int.from_bytes(hashlib.blake2b(obj, digest_size=8).digest(), "little")


class Acc:
    """Per-shard accumulator of what the monitors observed."""

    def __init__(self, check_id: str):
        self.check_id = check_id
        self.evaluations = 0
        self.counters: Counter = Counter()
        self.tables: dict[str, Counter] = defaultdict(Counter)
        self.nontrivial: set[int] = set()
        self.nontrivial_overflow = 0
        self.samples: list = []
        self.violations: dict[str, dict] = {}
        self.inconclusive: list[str] = []
        self.exhaustive: dict[str, bool] = {}
        self.notes: list[str] = []

    # -- cases -----------------------------------------------------------
    def case(self, nontrivial_key=None, n: int = 1):
        self.evaluations += n
        if nontrivial_key is not None:
            if len(self.nontrivial) < HASH_CAP:
                self.nontrivial.add(h64(nontrivial_key))
            else:
                self.nontrivial_overflow += 1

    def count(self, name: str, n: int = 1):
        self.counters[name] += n

    def cover(self, table: str, key, n: int = 1):
        self.tables[table][str(key)] += n

    def sample(self, obj, cap: int = 4):
        if len(self.samples) < cap:
            self.samples.append(obj)

    def violation(self, key: str, what: str, witness: dict):
        v = self.violations.setdefault(key, {"key": key, "what": what, "count": 0, "witnesses": []})
        v["count"] += 1
        if len(v["witnesses"]) < MAX_WITNESS_PER_KEY:
            v["witnesses"].append({"what": what, **witness})

    def inconclusive_because(self, reason: str):
        if "loop-step-stalled" in reason:
            # not a harness problem: inside a simulated session one event-loop iteration of the code under test did not
            # return for vf.vloop.STALL_SECONDS of wall clock and had to be interrupted - the loop was monopolised
            self.violation("event-loop-monopolised", "one event-loop iteration of a client session did not finish within the stall limit (20 s wall clock): "
                           "the code running in it never yields; " + reason, {"session": reason})
            return
        if "close-never-returned" in reason:
            self.violation("close-never-returns", "at the end of a simulated session close() had not returned 120 virtual seconds after it was called "
                           "(something it waits for never happens); " + reason, {"session": reason})
            return
        if reason not in self.inconclusive:
            self.inconclusive.append(reason)

    def set_exhaustive(self, subspace: str, flag: bool = True):
        self.exhaustive[subspace] = flag

    def note(self, text: str):
        if text not in self.notes and len(self.notes) < 50:
            self.notes.append(text)

    # -- (de)serialisation ------------------------------------------------
    def dump(self, path: str):
        with open(path + ".hashes", "wb") as fh:
            array("Q", sorted(self.nontrivial)).tofile(fh)
        with open(path, "w") as fh:
            json.dump({
                "evaluations": self.evaluations,
                "counters": dict(self.counters),
                "tables": {k: dict(v) for k, v in self.tables.items()},
                "nontrivial_overflow": self.nontrivial_overflow,
                "samples": self.samples,
                "violations": self.violations,
                "inconclusive": self.inconclusive,
                "exhaustive": self.exhaustive,
                "notes": self.notes,
            }, fh, default=_json_default)

    def absorb_file(self, path: str):
        with open(path) as fh:
            d = json.load(fh)
        self.evaluations += d["evaluations"]
        self.counters.update(d["counters"])
        for k, v in d["tables"].items():
            self.tables[k].update(v)
        self.nontrivial_overflow += d["nontrivial_overflow"]
        for s in d["samples"][:2]:
            if len(self.samples) < 14:
                self.samples.append(s)
        for k, v in d["violations"].items():
            mine = self.violations.setdefault(k, {"key": k, "what": v["what"], "count": 0, "witnesses": []})
            mine["count"] += v["count"]
            for w in v["witnesses"]:
                if len(mine["witnesses"]) < MAX_WITNESS_PER_KEY:
                    mine["witnesses"].append(w)
        for r in d["inconclusive"]:
            self.inconclusive_because(r)
        for k, v in d["exhaustive"].items():
            self.exhaustive[k] = self.exhaustive.get(k, True) and v
        for n in d["notes"]:
            self.note(n)
        a = array("Q")
        with open(path + ".hashes", "rb") as fh:
            a.frombytes(fh.read())
        self.nontrivial.update(a)


def _json_default(o):
    if isinstance(o, (bytes, bytearray)):
        return o.hex()
    if isinstance(o, (set, frozenset)):
        return sorted(o, key=repr)
    return repr(o)


# ---------------------------------------------------------------------------
# forked shard execution
# ---------------------------------------------------------------------------

def _silent_debug_logging():
    """The library's loggers at DEBUG level with a handler that discards everything: what the library does must not
    depend on whether anybody listens to its log (guards such as logger.isEnabledFor(DEBUG) become true)."""
    import logging
    logging.disable(logging.NOTSET)
    for name in ("", "nmea2000"):
        lg = logging.getLogger(name)
        lg.handlers = [logging.NullHandler()]
    lg = logging.getLogger("nmea2000")
    lg.setLevel(logging.DEBUG)
    lg.propagate = False


def _child(mod, spec, out_path, timeout, idx=0):
    try:
        faulthandler.enable()
        faulthandler.dump_traceback_later(max(5, timeout - 2), exit=False)
        acc = Acc(mod.ID)
        if idx % 2 == 1 and "VERIF_TZ" not in os.environ:
            os.environ["TZ"] = "NZST-13"          # UTC+13: the other side of the date line
            time.tzset()
            acc.count("shards_run_east_of_greenwich")
        else:
            acc.count("shards_run_west_of_greenwich")
        if idx % 3 == 1 and os.environ.get("VERIF_NO_DEBUG_LOGGING") != "1":
            _silent_debug_logging()
            acc.count("shards_run_with_library_debug_logging_on")
        if idx % 3 == 2 and os.environ.get("VERIF_NO_AMBIENT", "0") != "1":
            # ambient arithmetic settings of the embedding application: its decimal context (few digits, rounding down, in this
            # thread and as the default of new threads) is its own business and must not reach into what the library computes
            import decimal
            for ctx in (decimal.getcontext(), decimal.DefaultContext):
                ctx.prec = 5
                ctx.rounding = decimal.ROUND_DOWN
            acc.count("shards_run_with_a_coarse_decimal_context")
        lib_ = sys.modules.get("vf.lib")
        if lib_ is not None and os.environ.get("VERIF_HOSTILE", "1") != "0":
            for k_ in lib_.HOSTILE:
                lib_.HOSTILE[k_] = True
            lib_.HOSTILE["sparse"] = isinstance(spec, dict) and spec.get("tier") == "thorough"
            acc.count("shards_run_with_hostile_decoder_neighbourhood")
        try:
            mod.run_shard(spec, acc)
        except BaseException as e:  # harness failure, not a property verdict
            if type(e).__name__ == "TooManyStalls":
                acc.note(f"shard {spec.get('name', spec)} stopped after five stalled sessions (reported as event-loop-monopolised)")
                acc.dump(out_path)
                os._exit(0)
            acc.inconclusive_because(f"shard {spec.get('name', spec)} crashed: {type(e).__name__}: {e}")
            acc.note(traceback.format_exc()[-1500:])
        if lib_ is not None:
            for k_, v_ in lib_.HOSTILE_STATS.items():
                if v_:
                    acc.count("hostile_" + k_, v_)
        sg = sys.modules.get("vf.simgw")
        for k_ in sorted(getattr(sg, "LOSS_CLASSES_SEEN", {})):
            acc.cover("link_loss_error_classes", k_)
        acc.dump(out_path)
        sys.stdout.flush()
        sys.stderr.flush()
    finally:
        os._exit(0)


def run_shards(mod, specs, timeout: float, jobs: int = NCPU) -> Acc:
    os.makedirs(SCRATCH, exist_ok=True)
    run_dir = os.path.join(SCRATCH, f"{mod.ID}-{os.getpid()}")
    os.makedirs(run_dir, exist_ok=True)
    total = Acc(mod.ID)
    pending = list(enumerate(specs))
    running: dict[int, tuple[int, float, str, dict]] = {}
    try:
        while pending or running:
            while pending and len(running) < jobs:
                idx, spec = pending.pop(0)
                out = os.path.join(run_dir, f"shard{idx}.json")
                sys.stdout.flush()
                sys.stderr.flush()
                pid = os.fork()
                if pid == 0:
                    _child(mod, spec, out, timeout, idx)
                running[pid] = (idx, time.time(), out, spec)
            # reap
            done_any = False
            for pid in list(running):
                idx, t0, out, spec = running[pid]
                r, status = os.waitpid(pid, os.WNOHANG)
                if r == 0:
                    if time.time() - t0 > timeout:
                        try:
                            os.kill(pid, signal.SIGKILL)
                        except ProcessLookupError:
                            pass
                        os.waitpid(pid, 0)
                        del running[pid]
                        total.inconclusive_because(f"watchdog: shard {spec.get('name', idx)} exceeded {timeout}s wall clock")
                        done_any = True
                    continue
                del running[pid]
                done_any = True
                if os.path.exists(out) and os.path.exists(out + ".hashes"):
                    total.absorb_file(out)
                    os.unlink(out)
                    os.unlink(out + ".hashes")
                else:
                    total.inconclusive_because(f"shard {spec.get('name', idx)} died without a result (status {status})")
            if not done_any:
                time.sleep(0.02)
    finally:
        for pid in running:
            try:
                os.kill(pid, signal.SIGKILL)
            except ProcessLookupError:
                pass
        try:
            for f in os.listdir(run_dir):
                os.unlink(os.path.join(run_dir, f))
            os.rmdir(run_dir)
        except OSError:
            pass
    return total


# ---------------------------------------------------------------------------
# verdict
# ---------------------------------------------------------------------------

def finish(mod, acc: Acc, tier: str, seed: int, t0: float, min_evals: int = 1) -> int:
    known = findings.load().get(mod.ID, {})
    lines = []
    unknown = []
    seen_known = []
    for key, v in sorted(acc.violations.items()):
        if key in known:
            seen_known.append((key, v))
        else:
            unknown.append((key, v))
    for key, v in seen_known:
        lines.append(f"KNOWN-FINDING: property={mod.ID} key={key} {known[key]} [observed {v['count']}x this run]")
    for key in known:
        if key not in acc.violations:
            lines.append(f"NOTE: listed finding property={mod.ID} key={key} was not observed in this run")
    rc = 0
    replay_paths = []
    if unknown:
        rc = 1
        rdir = os.environ.get("VERIF_REPLAY_DIR") or os.path.join(VERIF_DIR, "replays")
        os.makedirs(rdir, exist_ok=True)
        for key, v in unknown:
            safe = "".join(c if c.isalnum() or c in "-_" else "_" for c in key)[:60]
            path = os.path.join(rdir, f"{mod.ID}-{safe}.json")
            with open(path, "w") as fh:
                json.dump({"property": mod.ID, "key": key, "tier": tier, "seed": seed, "count": v["count"],
                           "what": v["what"], "witnesses": v["witnesses"]}, fh, indent=1, default=_json_default)
            replay_paths.append(path)
            lines.append(f"VIOLATION property={mod.ID} replay={path}")
            lines.append(f"  key={key} count={v['count']} what={v['what']}")
    # inconclusive: deciding monitors never reached / watchdogs
    required = getattr(mod, "REQUIRED_COUNTERS", [])
    for name in required:
        if acc.counters.get(name, 0) <= 0:
            acc.inconclusive_because(f"deciding monitor '{name}' observed nothing")
    if acc.evaluations < min_evals:
        acc.inconclusive_because("no cases evaluated")
    if rc == 0 and acc.inconclusive:
        rc = 2
        for r in acc.inconclusive:
            lines.append(f"INCONCLUSIVE property={mod.ID} reason={r}")
    wall = time.time() - t0
    evidence.write(mod, acc, tier, seed, wall, n_unknown=sum(v["count"] for _, v in unknown),
                   known_seen={k: v["count"] for k, v in seen_known}, verdict={0: "held", 1: "violated", 2: "inconclusive"}[rc])
    distinct = len(acc.nontrivial)
    print(f"[{mod.ID}] tier={tier} seed={seed} evaluations={acc.evaluations} distinct_nontrivial={distinct}"
          f" wall={wall:.1f}s verdict={ {0: 'HELD', 1: 'VIOLATED', 2: 'INCONCLUSIVE'}[rc] }")
    for name in sorted(acc.counters):
        print(f"    {name}={acc.counters[name]}")
    for n in acc.notes[:10]:
        print(f"    note: {n}")
    for ln in lines:
        print(ln)
    return rc
