"""Histories of frames (single frames, fast-packet frames, address claims) with ground truth."""
from __future__ import annotations

import random

from . import refdb, gen, wire

CLAIM_PGN = 60928


def claim_name(unique: int, mfr: int, inst_lo: int = 0, inst_hi: int = 0, function: int = 130, dev_class: int = 25,
               sys_inst: int = 0, industry: int = 4, aac: int = 1) -> int:
    """64-bit ISO NAME per PGN 60928's field layout (21/11/3/5/8/1/7/4/3/1 bits)."""
    v = unique & 0x1FFFFF
    v |= (mfr & 0x7FF) << 21
    v |= (inst_lo & 7) << 32
    v |= (inst_hi & 0x1F) << 35
    v |= (function & 0xFF) << 40
    v |= 0 << 48                      # spare
    v |= (dev_class & 0x7F) << 49
    v |= (sys_inst & 0xF) << 56
    v |= (industry & 7) << 60
    v |= (aac & 1) << 63
    return v


def pick_name(rng, mfrs=(1851, 1855, 137, 229), hostile=True):
    """A 64-bit NAME: well-formed with ordinary sub-field values, or with one or several sub-fields at their all-ones code
    ('not available': instance 7 / 31, system instance 15, unique number 0x1FFFFF, function 255, class 127), or 64 random
    bits (the manufacturer of those is kept to a known code so that manufacturer filters still have something to decide)."""
    r = rng.random()
    base = dict(unique=rng.randrange((1 << 21) - 3), mfr=rng.choice(list(mfrs)), inst_lo=rng.randrange(6), inst_hi=rng.randrange(30),
                function=rng.choice([130, 140, 150, 160]), dev_class=rng.choice([25, 60, 75]), sys_inst=rng.randrange(14), industry=4, aac=rng.randrange(2))
    if not hostile or r < 0.4:
        return claim_name(**base)
    if r < 0.75:
        for k_ in rng.sample(["unique", "inst_lo", "inst_hi", "sys_inst", "function", "dev_class"], rng.randint(1, 3)):
            base[k_] = {"unique": 0x1FFFFF, "inst_lo": 7, "inst_hi": 31, "sys_inst": 15, "function": 255, "dev_class": 127}[k_]
        return claim_name(**base)
    v = rng.getrandbits(64)
    v = (v & ~(0x7FF << 21)) | ((base["mfr"] & 0x7FF) << 21)
    # the code just below all-ones of a numeric sub-field is 'out of range' to the library (it refuses such a frame like any
    # other out-of-range value): not what this generator is about
    for off, bits in ((0, 21), (32, 3), (35, 5), (56, 4)):
        if (v >> off) & ((1 << bits) - 1) == (1 << bits) - 2:
            v ^= 1 << off
    return v


REFUSED_NAMES: set = set()


def refused_name(rng, mfrs=(1851, 1855, 137, 229)):
    """A NAME the library refuses like any frame with an out-of-range field (a numeric sub-field holds the code just below
    all-ones): decoding it raises, and it changes nothing - the address keeps whatever identity it had."""
    base = dict(unique=rng.randrange((1 << 21) - 3), mfr=rng.choice(list(mfrs)), inst_lo=rng.randrange(6), inst_hi=rng.randrange(30),
                function=rng.choice([130, 140, 150]), dev_class=rng.choice([25, 60, 75]), sys_inst=rng.randrange(14), industry=4, aac=1)
    k_ = rng.choice(["sys_inst", "inst_hi", "unique", "sys_inst"])
    base[k_] = {"sys_inst": 14, "inst_hi": 30, "unique": 0x1FFFFE}[k_]
    v = claim_name(**base)
    REFUSED_NAMES.add(v)
    return v


def related_addresses(src: int, dst: int = 255):
    """Addresses other than `src` that look like it or like `dst` to careless code: decimal prefixes and extensions of
    their spellings, +-1, the destination itself (when it is a unicast address)."""
    out = []
    for a in (src, dst):
        s_ = str(a)
        for k in range(1, len(s_)):
            out.append(int(s_[:k]))
        for dgt in (0, 5, 9):
            out.append(a * 10 + dgt)
        out += [a - 1, a + 1]
    if dst < 254:
        out.append(dst)
    seen, res = set(), []
    for a in out:
        if 0 <= a <= 251 and a != src and a not in seen:
            seen.add(a)
            res.append(a)
    return res


class Pool:
    """Decodable message templates drawn from the database."""

    def __init__(self, dbx, rng: random.Random, n_single=10, n_fast=6, only_encodable=False, max_fast_len=60):
        self.dbx = dbx
        self.rng = rng
        ok = [d for d in dbx.defs if d.supported and d.fixed_layout and d.type in ("Single", "Fast")
              and d.pgn != CLAIM_PGN and not d.fallback and (d.encodable or not only_encodable)
              and not any(f.offset is not None for f in d.fields)]
        singles = [d for d in ok if d.type == "Single" and (d.length or 9) <= 8]
        fasts = [d for d in ok if d.type == "Fast" and d.length is not None and d.length <= max_fast_len]
        if max_fast_len > 60:
            # make sure the long ones are represented (they are few)
            long_ones = [d for d in fasts if d.length > 100]
            rng.shuffle(long_ones)
            fasts = long_ones[:2] + [d for d in fasts if d not in long_ones[:2]]
            self.singles = rng.sample(singles, min(n_single, len(singles)))
            self.fasts = fasts[:2] + rng.sample(fasts[2:], min(max(n_fast - 2, 0), len(fasts) - 2))
            return
        self.singles = rng.sample(singles, min(n_single, len(singles)))
        self.fasts = rng.sample(fasts, min(n_fast, len(fasts)))
        # definitions of PGN numbers that the code under test mentions literally travel as well (it may treat them specially)
        named = [d for d in ok if d.pgn in set(gen.harvested_in(0, 1 << 18)) and d not in self.singles and d not in self.fasts]
        for d in rng.sample(named, min(len(named), 3)):
            (self.singles if d in singles else self.fasts if d in fasts else []).append(d)
        # sibling definitions of the same PGN number travel together: one long-lived decoder must keep them apart
        for lst, src in ((self.singles, singles), (self.fasts, fasts)):
            extra = []
            for d in lst[:3]:
                sib = [x for x in src if x.pgn == d.pgn and x is not d and x not in lst and x not in extra]
                if sib:
                    extra.append(rng.choice(sib))
            lst.extend(extra)

    def payload(self, d):
        for _ in range(20):
            p = self.dbx.pack(d, gen.base_raws(d, self.rng, self.dbx))
            if self.dbx.select(d.pgn, p) is d:
                return p.to_bytes(d.length, "little")
        return None


class Ev:
    """One frame on the wire with ground truth."""
    __slots__ = ("prio", "pgn", "src", "dst", "data", "tag", "msg_no", "last", "definition")

    def __init__(self, prio, pgn, src, dst, data, tag, msg_no=None, last=True, definition=None):
        self.prio, self.pgn, self.src, self.dst, self.data = prio, pgn, src, dst, data
        self.tag, self.msg_no, self.last, self.definition = tag, msg_no, last, definition

    def ident(self):
        return wire.can_id(self.prio, self.pgn, self.src, self.dst)

    def ebyte(self):
        return wire.ebyte_frame(self.ident(), self.data)

    def brief(self):
        return [self.tag, self.pgn, self.src, self.dst, self.data.hex(), self.definition]


def pick_sources(rng, n, avoid=()):
    """n distinct source addresses 0..251: random ones and addresses the code under test mentions literally."""
    pool = [a for a in gen.harvested_in(0, 251) if a not in avoid]
    out = []
    while len(out) < n:
        a = rng.choice(pool) if pool and rng.random() < 0.3 else rng.randrange(0, 252)
        if a not in out and a not in avoid:
            out.append(a)
    return out


def pick_unique_number(rng):
    """A 21-bit unique number: random, or one the code under test mentions literally."""
    hv = gen.harvested_in(0, (1 << 21) - 4)
    return rng.choice(hv) if hv and rng.random() < 0.2 else rng.randrange((1 << 21) - 3)


def feed(dec, ev: Ev, fmt="ebyte"):
    if fmt == "ebyte":
        return dec.decode_tcp(ev.ebyte())
    if fmt == "usb":
        return dec.decode_usb(wire.usb_frame(ev.ident(), ev.data))
    return dec.decode_yacht_devices_string(wire.yd_line(ev.ident(), ev.data).strip())


ACTISENSE_UPTIMES = ["A000000.000", "A000057.055", "A000599.999", "A000600.000", "A000601.500", "A086400.000", "A999999.999"]
PLAIN_STAMPS = ["2024-01-01-00:00:00.000", "2012-06-17-15:02:11.000", "2031-01-01T00:00:00.000Z", "1999-12-31-23:59:59.999"]


def feed_any(dec, ev: Ev, rng):
    """The same frame through a randomly chosen input format (and whatever timestamp that format carries): frame-level
    formats for fast-packet frames, additionally the whole-message text formats for single frames and claims."""
    pdu1 = ((ev.pgn >> 8) & 0xFF) < 240
    d_eff = ev.dst if pdu1 else 255
    fmts = ["ebyte", "usb", "yd", "plain", "usb_bytearray"] + (["actisense", "actisense", "plain_combined"] if ev.tag != "fast" else [])
    fmt = rng.choice(fmts)
    if fmt in ("ebyte", "usb", "yd"):
        return feed(dec, ev, fmt)
    if fmt == "usb_bytearray":
        return dec.decode_usb(bytearray(wire.usb_frame(ev.ident(), ev.data)))
    if fmt == "plain":
        return dec.decode_basic_string(wire.plain_line(ev.prio, ev.pgn, ev.src, d_eff, ev.data, rng.choice(PLAIN_STAMPS)))
    if fmt == "plain_combined":
        return dec.decode_basic_string(wire.plain_line(ev.prio, ev.pgn, ev.src, d_eff, ev.data, rng.choice(PLAIN_STAMPS)), already_combined=True)
    return dec.decode_actisense_string(wire.actisense_line(ev.prio, ev.pgn, ev.src, d_eff, ev.data, rng.choice(ACTISENSE_UPTIMES)))


def safe_feed_any(dec, ev, rng):
    try:
        return ("ok", feed_any(dec, ev, rng))
    except Exception as e:  # noqa: BLE001
        return ("exc", type(e).__name__)


def safe_feed(dec, ev, fmt="ebyte"):
    try:
        return ("ok", feed(dec, ev, fmt))
    except Exception as e:  # noqa: BLE001
        return ("exc", type(e).__name__)


def claim_event(src, name: int, prio=6, dst=255):
    return Ev(prio, CLAIM_PGN, src, dst, name.to_bytes(8, "little"), "claim", definition="isoAddressClaim")


def build_history(pool: Pool, rng: random.Random, sources, n_events: int, claims: dict | None = None,
                  p_claim=0.15, p_fast=0.35, interleave_fast=True, p_same_seq=0.0, p_repeat=0.12):
    """-> list[Ev].  claims: {src: [NAME ints]} to draw address claims from."""
    events = []
    pending = []          # partially sent fast messages: (remaining frames list)
    seqs = {}
    msg_no = 0
    while len(events) < n_events:
        x = rng.random()
        if pending and (x < 0.5 or not interleave_fast):
            q = rng.choice(pending) if interleave_fast else pending[0]
            events.append(q.pop(0))
            if not q:
                pending.remove(q)
            continue
        src = rng.choice(sources)
        if claims and x < 0.5 + p_claim:
            names = claims.get(src)
            if names:
                events.append(claim_event(src, rng.choice(names)))
                continue
        if pool.fasts and rng.random() < p_fast:
            d = rng.choice(pool.fasts)
            pb = pool.payload(d)
            if pb is None:
                continue
            dst = rng.choice([255, 17]) if ((d.pgn >> 8) & 0xFF) < 240 else 255
            key = (d.pgn, src, dst)
            if any(q and (q[0].pgn, q[0].src, q[0].dst) == key for q in pending):
                continue          # one message at a time per stream (C04 covers overlapping)
            if key in seqs and rng.random() < p_same_seq:
                pass          # same counter as the previous (completed) message of this stream: restarted sender,
                              # or exactly 7 other fast messages of the same device in between
            else:
                seqs[key] = (seqs.get(key, -1) + rng.choice([1, 1, 1, 2, 5])) % 8
            frames = wire.fast_frames(pb, seqs[key], rng.choice([None, 0xFF]))
            prio = rng.randrange(8)
            q = [Ev(prio, d.pgn, src, dst, f, "fast", msg_no, last=(k == len(frames) - 1), definition=d.id) for k, f in enumerate(frames)]
            msg_no += 1
            pending.append(q)
            events.append(q.pop(0))
            if not q:
                pending.remove(q)
        elif pool.singles:
            d = rng.choice(pool.singles)
            pb = pool.payload(d)
            if pb is None:
                continue
            dst = rng.choice([255, 17]) if ((d.pgn >> 8) & 0xFF) < 240 else 255
            prio = rng.randrange(8)
            events.append(Ev(prio, d.pgn, src, dst, pb, "single", msg_no, definition=d.id))
            msg_no += 1
            # instruments repeat themselves: the very same frame again, at once or a little later (each one is a message)
            while rng.random() < p_repeat:
                events.append(Ev(prio, d.pgn, src, dst, pb, "single", msg_no, definition=d.id))
                msg_no += 1
    for q in pending:          # flush
        events.extend(q)
    return events
