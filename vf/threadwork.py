"""Workloads in which several threads of one process use objects of their own (one encoder + one decoder per thread - an
application with a thread per gateway). Nothing is shared by the application; the expected results are computed first,
single-threaded, and every thread must reproduce them while the interpreter switches threads as often as it can."""
from __future__ import annotations

import sys
import threading

from .lib import NMEA2000Decoder, NMEA2000Encoder, _RealDecoder, _RealEncoder
from . import refdb, gen, wire, project


def _ident_of(fmt, p):
    if fmt == "ebyte":
        return int.from_bytes(p[1:5], "big")
    if fmt == "usb":
        return int.from_bytes(p[5:9], "little")
    return int(p.split()[0], 16)


def _strip_seq(fmt, p, fast):
    """Packet with the 3-bit sequence counter of a fast-packet frame zeroed (the counter is per encoder and moves on)."""
    if not fast:
        return bytes(p)
    if fmt == "ebyte":
        b = bytearray(p)
        b[5] &= 0x1F
        return bytes(b)
    if fmt == "usb":
        b = bytearray(p)
        b[10] &= 0x1F
        b[19] = wire.usb_checksum(bytes(b))
        return bytes(b)
    parts = p.split()
    parts[1] = b"%02X" % (int(parts[1], 16) & 0x1F)
    return b" ".join(parts) + b"\r\n"


def encoder_round_trips(spec, acc, check_id, n_threads=4):
    dbx = refdb.db()
    rng = gen.rng_for(spec["seed"], check_id, spec["name"])
    quick = spec["tier"] == "quick"
    src_dec = _RealDecoder()
    defs = [d for d in dbx.defs if d.encodable and d.fixed_layout and d.type in ("Single", "Fast") and (d.length or 0)]
    plans = []
    for t in range(n_threads):
        enc = _RealEncoder()
        msgs = []
        for d in rng.sample(defs, min(len(defs), 25 if quick else 80)):
            p = dbx.pack(d, gen.base_raws(d, rng, dbx))
            if dbx.select(d.pgn, p) is not d:
                continue
            try:
                m = src_dec.decode_basic_string(wire.plain_line(3, d.pgn, 5, 255, p.to_bytes(d.length, "little")), already_combined=True)
                if m is None:
                    continue
                m.priority, m.source, m.destination = rng.randrange(8), 10 * t + rng.randrange(1, 9), rng.choice([255, 17 + t])
                want = {}
                for fmt, fn in (("ebyte", enc.encode_ebyte), ("usb", enc.encode_usb), ("yd", enc.encode_yacht_devices)):
                    want[fmt] = [_strip_seq(fmt, x, d.type == "Fast") for x in fn(m)]
            except Exception:  # noqa: BLE001
                continue
            msgs.append((m, d, want))
        plans.append(msgs)
    wrong, errors = [], []
    start = threading.Barrier(n_threads)
    rounds = 15 if quick else 120

    def work(t):
        try:
            enc, dec = _RealEncoder(), _RealDecoder()
            start.wait()
            for r_ in range(rounds):
                for m, d, want in plans[t]:
                    for fmt, fn in (("ebyte", enc.encode_ebyte), ("usb", enc.encode_usb), ("yd", enc.encode_yacht_devices)):
                        pk = fn(m)
                        got = [_strip_seq(fmt, x, d.type == "Fast") for x in pk]
                        if got != want[fmt]:
                            bad_ids = sorted({hex(_ident_of(fmt, x)) for x in pk} - {hex(_ident_of(fmt, x)) for x in want[fmt]})
                            wrong.append((t, d.id, fmt, "packets", bad_ids))
                            return
                        back = None
                        for x in pk:
                            back = (dec.decode_tcp(x) if fmt == "ebyte" else dec.decode_usb(x) if fmt == "usb"
                                    else dec.decode_yacht_devices_string("00:00:00.000 R " + x.decode("ascii").strip()))
                        if back is None or (back.PGN, back.source, back.priority) != (m.PGN, m.source, m.priority) or back.id != m.id:
                            wrong.append((t, d.id, fmt, "decoded", None if back is None else (back.PGN, back.source, back.priority, back.id)))
                            return
        except Exception as e:  # noqa: BLE001
            errors.append(f"{type(e).__name__}: {e}")
    old = sys.getswitchinterval()
    sys.setswitchinterval(1e-6)
    try:
        ts = [threading.Thread(target=work, args=(t,)) for t in range(n_threads)]
        for t_ in ts:
            t_.start()
        for t_ in ts:
            t_.join(900)
    finally:
        sys.setswitchinterval(old)
    n = sum(len(p) for p in plans) * rounds * 3
    acc.count("messages_encoded_and_decoded_in_concurrent_threads", n)
    acc.case(("threads", n_threads, n))
    acc.sample({"threads": n_threads, "messages_per_thread": [len(p) for p in plans], "rounds": rounds, "switch_interval": 1e-6})
    return n, wrong, errors
